// Stand-in for the ThreadSanitizer runtime (DESIGN.md 9.4).  ops.cc and /repo's fixed_math.cc are
// compiled with -fsanitize=thread (compile only); the compiler then calls these functions before
// every memory access of library code.  Instead of race detection they give the simulator a
// preemption point: hsim_yield() may hand the baton to another simulated caller.
// Never compiled with instrumentation itself.
#include <cstdint>
#include <cstddef>
#include <dlfcn.h>
#include <pthread.h>

extern "C" {
void hsim_yield(const void * addr, int is_write);
int hsim_in_call();
void hsim_wait_until(int (*pred)(void *), void * arg);

void __tsan_init() {}
void __tsan_func_entry(void *) {}
void __tsan_func_exit() {}
void __tsan_vptr_update(void ** p, void *) { hsim_yield(p, 1); }
void __tsan_vptr_read(void ** p) { hsim_yield(p, 0); }
void __tsan_read_range(void * a, unsigned long) { hsim_yield(a, 0); }
void __tsan_write_range(void * a, unsigned long) { hsim_yield(a, 1); }
void __tsan_read_range_pc(void * a, unsigned long, void *) { hsim_yield(a, 0); }
void __tsan_write_range_pc(void * a, unsigned long, void *) { hsim_yield(a, 1); }

#define HSIM_RW(N) \
  void __tsan_read##N(void * a) { hsim_yield(a, 0); } \
  void __tsan_write##N(void * a) { hsim_yield(a, 1); } \
  void __tsan_unaligned_read##N(void * a) { hsim_yield(a, 0); } \
  void __tsan_unaligned_write##N(void * a) { hsim_yield(a, 1); } \
  void __tsan_read##N##_pc(void * a, void *) { hsim_yield(a, 0); } \
  void __tsan_write##N##_pc(void * a, void *) { hsim_yield(a, 1); }
HSIM_RW(1) HSIM_RW(2) HSIM_RW(4) HSIM_RW(8) HSIM_RW(16)

// atomics: really performed (sequentially consistent), each one a preemption point
#define HSIM_ATOMIC(BITS, T) \
  T __tsan_atomic##BITS##_load(const volatile T * a, int) { hsim_yield(const_cast<const T *>(a), 2); return __atomic_load_n(a, __ATOMIC_SEQ_CST); } \
  void __tsan_atomic##BITS##_store(volatile T * a, T v, int) { hsim_yield(const_cast<T *>(a), 3); __atomic_store_n(a, v, __ATOMIC_SEQ_CST); } \
  T __tsan_atomic##BITS##_exchange(volatile T * a, T v, int) { hsim_yield(const_cast<T *>(a), 3); return __atomic_exchange_n(a, v, __ATOMIC_SEQ_CST); } \
  T __tsan_atomic##BITS##_fetch_add(volatile T * a, T v, int) { hsim_yield(const_cast<T *>(a), 3); return __atomic_fetch_add(a, v, __ATOMIC_SEQ_CST); } \
  T __tsan_atomic##BITS##_fetch_sub(volatile T * a, T v, int) { hsim_yield(const_cast<T *>(a), 3); return __atomic_fetch_sub(a, v, __ATOMIC_SEQ_CST); } \
  T __tsan_atomic##BITS##_fetch_and(volatile T * a, T v, int) { hsim_yield(const_cast<T *>(a), 3); return __atomic_fetch_and(a, v, __ATOMIC_SEQ_CST); } \
  T __tsan_atomic##BITS##_fetch_or(volatile T * a, T v, int) { hsim_yield(const_cast<T *>(a), 3); return __atomic_fetch_or(a, v, __ATOMIC_SEQ_CST); } \
  T __tsan_atomic##BITS##_fetch_xor(volatile T * a, T v, int) { hsim_yield(const_cast<T *>(a), 3); return __atomic_fetch_xor(a, v, __ATOMIC_SEQ_CST); } \
  T __tsan_atomic##BITS##_fetch_nand(volatile T * a, T v, int) { hsim_yield(const_cast<T *>(a), 3); return __atomic_fetch_nand(a, v, __ATOMIC_SEQ_CST); } \
  int __tsan_atomic##BITS##_compare_exchange_strong(volatile T * a, T * c, T v, int, int) \
    { hsim_yield(const_cast<T *>(a), 3); return __atomic_compare_exchange_n(a, c, v, false, __ATOMIC_SEQ_CST, __ATOMIC_SEQ_CST); } \
  int __tsan_atomic##BITS##_compare_exchange_weak(volatile T * a, T * c, T v, int, int) \
    { hsim_yield(const_cast<T *>(a), 3); return __atomic_compare_exchange_n(a, c, v, false, __ATOMIC_SEQ_CST, __ATOMIC_SEQ_CST); } \
  T __tsan_atomic##BITS##_compare_exchange_val(volatile T * a, T c, T v, int, int) \
    { hsim_yield(const_cast<T *>(a), 3); __atomic_compare_exchange_n(a, &c, v, false, __ATOMIC_SEQ_CST, __ATOMIC_SEQ_CST); return c; }
HSIM_ATOMIC(8, uint8_t) HSIM_ATOMIC(16, uint16_t) HSIM_ATOMIC(32, uint32_t) HSIM_ATOMIC(64, uint64_t)
void __tsan_atomic_thread_fence(int) { hsim_yield(reinterpret_cast<const void *>(uintptr_t(1)), 1); }
void __tsan_atomic_signal_fence(int) {}

// ---- blocking primitives a future change might add: simulated while a simulated call is running --------------
static const int MAXOBJ = 64;
static const void * g_locked[MAXOBJ];           // mutexes currently owned (by whom is irrelevant: owners never re-lock here)
static const void * g_initialising[MAXOBJ];     // guarded statics whose initialiser is in flight

static int slot_of(const void ** tab, const void * p) { for (int i = 0; i < MAXOBJ; ++i) if (tab[i] == p) return i; return -1; }
static void put(const void ** tab, const void * p) { for (int i = 0; i < MAXOBJ; ++i) if (!tab[i]) { tab[i] = p; return; } }
static void drop(const void ** tab, const void * p) { int i = slot_of(tab, p); if (i >= 0) tab[i] = nullptr; }
static int pred_unlocked(void * m) { return slot_of(g_locked, m) < 0; }
static int pred_guard_free(void * g) { return *static_cast<volatile char *>(g) != 0 || slot_of(g_initialising, g) < 0; }

#define real(F, NAME) reinterpret_cast<F>(dlsym(RTLD_NEXT, NAME))
// plain pointers, filled without a guarded static (a guarded static here would call our own __cxa_guard_acquire)
static int (*g_real_pthread_mutex_lock)(pthread_mutex_t *) = nullptr;
static int (*g_real_pthread_mutex_trylock)(pthread_mutex_t *) = nullptr;
static int (*g_real_pthread_mutex_unlock)(pthread_mutex_t *) = nullptr;
static int (*g_real___cxa_guard_acquire)(long long *) = nullptr;
static void (*g_real___cxa_guard_release)(long long *) = nullptr;
static int (*g_real_pthread_once)(pthread_once_t *, void (*)(void)) = nullptr;
static void (*g_real___cxa_guard_abort)(long long *) = nullptr;

int pthread_mutex_lock(pthread_mutex_t * m)
  {
  if (!hsim_in_call()) { if (!g_real_pthread_mutex_lock) g_real_pthread_mutex_lock = real(int (*)(pthread_mutex_t *), "pthread_mutex_lock"); auto f = g_real_pthread_mutex_lock; return f(m); }
  hsim_yield(m, 1);
  hsim_wait_until(pred_unlocked, m);
  put(g_locked, m);
  return 0;
  }
int pthread_mutex_trylock(pthread_mutex_t * m)
  {
  if (!hsim_in_call()) { if (!g_real_pthread_mutex_trylock) g_real_pthread_mutex_trylock = real(int (*)(pthread_mutex_t *), "pthread_mutex_trylock"); auto f = g_real_pthread_mutex_trylock; return f(m); }
  hsim_yield(m, 1);
  if (!pred_unlocked(m)) return 16 /*EBUSY*/;
  put(g_locked, m);
  return 0;
  }
int pthread_mutex_unlock(pthread_mutex_t * m)
  {
  if (!hsim_in_call() || slot_of(g_locked, m) < 0) { if (!g_real_pthread_mutex_unlock) g_real_pthread_mutex_unlock = real(int (*)(pthread_mutex_t *), "pthread_mutex_unlock"); auto f = g_real_pthread_mutex_unlock; return f(m); }
  drop(g_locked, m);
  hsim_yield(m, 1);
  return 0;
  }

int __cxa_guard_acquire(long long * g)
  {
  if (!hsim_in_call()) { if (!g_real___cxa_guard_acquire) g_real___cxa_guard_acquire = real(int (*)(long long *), "__cxa_guard_acquire"); auto f = g_real___cxa_guard_acquire; return f(g); }
  hsim_yield(g, 0);
  if (*reinterpret_cast<volatile char *>(g) != 0) return 0;
  hsim_wait_until(pred_guard_free, g);
  if (*reinterpret_cast<volatile char *>(g) != 0) return 0;
  put(g_initialising, g);
  return 1;
  }
void __cxa_guard_release(long long * g)
  {
  if (slot_of(g_initialising, g) < 0) { if (!g_real___cxa_guard_release) g_real___cxa_guard_release = real(void (*)(long long *), "__cxa_guard_release"); auto f = g_real___cxa_guard_release; f(g); return; }
  *reinterpret_cast<volatile char *>(g) = 1;
  drop(g_initialising, g);
  hsim_yield(g, 1);
  }
// std::call_once / pthread_once
static const void * g_once_done[MAXOBJ];
static const void * g_once_running[MAXOBJ];
static int pred_once_free(void * o) { return slot_of(g_once_done, o) >= 0 || slot_of(g_once_running, o) < 0; }
int pthread_once(pthread_once_t * o, void (*init)(void))
  {
  if (!hsim_in_call()) { if (!g_real_pthread_once) g_real_pthread_once = real(int (*)(pthread_once_t *, void (*)(void)), "pthread_once"); auto f = g_real_pthread_once; return f(o, init); }
  hsim_yield(o, 0);
  if (slot_of(g_once_done, o) >= 0) return 0;
  hsim_wait_until(pred_once_free, o);
  if (slot_of(g_once_done, o) >= 0) return 0;
  put(g_once_running, o);
  init();
  drop(g_once_running, o);
  put(g_once_done, o);
  hsim_yield(o, 1);
  return 0;
  }

void __cxa_guard_abort(long long * g)
  {
  if (slot_of(g_initialising, g) < 0) { if (!g_real___cxa_guard_abort) g_real___cxa_guard_abort = real(void (*)(long long *), "__cxa_guard_abort"); auto f = g_real___cxa_guard_abort; f(g); return; }
  drop(g_initialising, g);
  }
}
