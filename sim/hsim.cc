// hsim - deterministic simulation of caller threads against the real fixed_math library.
// See DESIGN.md section 9.  Decides one thing: the bits a public call returns at run time do not
// depend on the history of earlier calls, on how callers' calls interleave, nor (fine mode) on
// where inside a call a caller is preempted while another caller runs library code.
//
//   hsim --scan <seed0> <count> --mode serial|fine [--hashes f] [--max-findings n]
//   hsim --exec                 execute a scripted schedule given on stdin, print one EXEC line
//   hsim --merge <files...>     count distinct 64-bit hashes in binary files
//   hsim --list-ops
//
// The process that parses arguments (the "zygote") never calls into the library; every execution
// happens in a forked child, so every history starts from pristine library state.
// This file is never compiled with instrumentation; ops.cc (+ /repo's fixed_math.cc) may be.
#include "ops.h"

#include <algorithm>
#include <cerrno>
#include <cinttypes>
#include <csetjmp>
#include <csignal>
#include <cstdint>
#include <cstdio>
#include <cstdlib>
#include <cstring>
#include <map>
#include <poll.h>
#include <sched.h>
#include <pthread.h>
#include <semaphore.h>
#include <string>
#include <sys/wait.h>
#include <unistd.h>
#include <unordered_set>
#include <vector>

#ifndef HSIM_BUILD_CELL
#define HSIM_BUILD_CELL "unknown"
#endif
#ifndef HSIM_INSTRUMENTED
#define HSIM_INSTRUMENTED 0
#endif

static std::vector<Op> g_ops;
void hsim_lc_main_phase();      // sim/early.cc

// ---------------------------------------------------------------------------------------------
// PRNG: everything a run does is derived from one 64-bit seed
struct Rng
  {
  uint64_t s;
  explicit Rng(uint64_t seed = 0) : s(seed) {}
  uint64_t next()
    {
    uint64_t z = (s += 0x9e3779b97f4a7c15ull);
    z = (z ^ (z >> 30)) * 0xbf58476d1ce4e5b9ull;
    z = (z ^ (z >> 27)) * 0x94d049bb133111ebull;
    return z ^ (z >> 31);
    }
  uint64_t below(uint64_t n) { return n ? next() % n : 0; }
  bool chance(unsigned pct) { return below(100) < pct; }
  };

static uint64_t mix64(uint64_t h, uint64_t v)
  {
  h ^= v + 0x9e3779b97f4a7c15ull + (h << 6) + (h >> 2);
  h *= 0xff51afd7ed558ccdull;
  return h ^ (h >> 32);
  }

static int op_index(const std::string & n)
  {
  for (size_t i = 0; i < g_ops.size(); ++i) if (g_ops[i].name == n) return static_cast<int>(i);
  return -1;
  }
static uint64_t fbits(float f) { uint32_t u; std::memcpy(&u, &f, 4); return u; }
static uint64_t dbits(double d) { uint64_t u; std::memcpy(&u, &d, 8); return u; }

// ---------------------------------------------------------------------------------------------
// workload generation
static const int64_t PHI_RAW = 205887;   // the library's pi constant; only used to aim arguments, never as an oracle

enum AliasKind { AL_NONE, AL_SAME, AL_LOW32, AL_LOW16, AL_LOW48, AL_HIGH, AL_FOLD, AL_BIT, AL_NEG, AL_PI, AL_2PI, AL_HIGH8, AL_LOW24, AL_NEXT, AL_N };
static const char * alias_name[AL_N] = {"fresh", "identical", "same_low32", "same_low16", "same_low48", "same_high_bits",
                                        "xor_fold_equal", "one_bit_flip", "negated", "plus_k_pi", "plus_k_2pi",
                                        "same_but_low8", "same_low24", "plus_minus_k_raw"};

static uint64_t fresh_fx(Rng & r)
  {
  static const int64_t special[] = {0, 1, -1, 65536, -65536, 32768, 3, 0x10000 * 256ll, PHI_RAW, PHI_RAW / 2, 2 * PHI_RAW,
                                    0x100000000ll, 0x100010001ll, (1ll << 45), (1ll << 46) - 1, (1ll << 47) - 1, -(1ll << 47) + 1,
                                    0x7fffffffffffll, INT64_MAX, INT64_MIN + 1, INT64_MIN, 0x7ffffffffffffffell, 39322, 65535};
  switch (r.below(8))
    {
    case 0: return static_cast<uint64_t>(special[r.below(sizeof(special) / sizeof(special[0]))]);
    case 1: return static_cast<uint64_t>(static_cast<int64_t>(r.below(1u << 17)) - (1 << 16));           // [-1, 1]
    case 2: return static_cast<uint64_t>(static_cast<int64_t>(r.below(4 * PHI_RAW)) - 2 * PHI_RAW);         // [-2pi, 2pi]
    case 3: return static_cast<uint64_t>(static_cast<int64_t>(r.below(1ull << 26)) - (1ll << 25));          // small
    case 4: return static_cast<uint64_t>(static_cast<int64_t>(r.below(1ull << 38)) - (1ll << 37));          // medium
    case 5: return static_cast<uint64_t>(static_cast<int64_t>(r.below(1ull << 48)) - (1ll << 47));          // |x| < 2^31
    case 6: return static_cast<uint64_t>(static_cast<int64_t>(r.below(1ull << 47)));                         // non-negative
    default: return r.next();
    }
  }

static uint64_t alias_fx(Rng & r, uint64_t v, AliasKind & kind)
  {
  uint64_t k = 1 + r.below(3);
  bool up = r.chance(50);
  kind = static_cast<AliasKind>(1 + r.below(AL_N - 1));
  switch (kind)
    {
    case AL_SAME: return v;
    case AL_LOW32: return up ? v + (k << 32) : v - (k << 32);
    case AL_LOW16: return up ? v + (k << 16) : v - (k << 16);
    case AL_LOW48: return up ? v + (k << 48) : v - (k << 48);
    case AL_HIGH: return (v & ~0xffffull) | r.below(1u << 16);
    case AL_FOLD: { uint64_t m = r.chance(50) ? k : (r.next() & 0xffffffffull); return v ^ m ^ (m << 32); }
    case AL_BIT: return v ^ (1ull << r.below(64));
    case AL_NEG: return 0 - v;
    case AL_PI: return up ? v + k * PHI_RAW : v - k * PHI_RAW;
    case AL_2PI: return up ? v + k * 2 * PHI_RAW : v - k * 2 * PHI_RAW;
    case AL_HIGH8: return (v & ~0xffull) | r.below(256);
    case AL_LOW24: return up ? v + (k << 24) : v - (k << 24);
    case AL_NEXT: return up ? v + k : v - k;
    default: return v;
    }
  }

static uint64_t fresh_arg(Rng & r, Kind k)
  {
  auto ival = [&](int64_t lo, int64_t hi, bool is_signed) -> uint64_t
    {
    static const int64_t sp[] = {0, 1, -1, 2, 3, 45, 90, 104, 105, 127, 128, 180, 200, 255, 256, 360, 361, 1000, 65535, 65536};
    int64_t v;
    switch (r.below(4))
      {
      case 0: v = sp[r.below(sizeof(sp) / sizeof(sp[0]))]; break;
      case 1: v = r.chance(50) ? hi : lo; break;
      case 2: v = static_cast<int64_t>(r.below(721)) - 360; break;
      default: v = static_cast<int64_t>(r.next()); break;
      }
    if (!is_signed && v < 0) return 0 - static_cast<uint64_t>(v);
    return static_cast<uint64_t>(v);       // the operation truncates to its operand type
    };
  switch (k)
    {
    case K_FX: return fresh_fx(r);
    case K_I8: return ival(INT8_MIN, INT8_MAX, true);
    case K_I16: return ival(INT16_MIN, INT16_MAX, true);
    case K_I32: return ival(INT32_MIN, INT32_MAX, true);
    case K_I64: return ival(INT64_MIN + 1, INT64_MAX, true);
    case K_U8: return ival(0, UINT8_MAX, false);
    case K_U16: return ival(0, UINT16_MAX, false);
    case K_U32: return ival(0, UINT32_MAX, false);
    case K_U64: return ival(0, INT64_MAX, false);
    case K_F32:
      {
      static const float sp[] = {0.f, 1.f, -1.f, 0.5f, 180.f, 360.f, 90.f, 1e-5f, 3.14159265f, 2147483520.f, 65536.f, -0.25f};
      float f;
      switch (r.below(4))
        {
        case 0: f = sp[r.below(sizeof(sp) / sizeof(sp[0]))]; break;
        case 1: f = static_cast<float>(static_cast<int64_t>(r.below(1u << 20)) - (1 << 19)) / 256.f; break;
        case 2: f = static_cast<float>(static_cast<int64_t>(r.below(721)) - 360); break;
        default: { uint32_t u = static_cast<uint32_t>(r.next()); std::memcpy(&f, &u, 4); } break;
        }
      return fbits(f);
      }
    case K_F64:
      {
      static const double sp[] = {0., 1., -1., 0.5, 180., 1e-9, 3.141592653589793, 2147483647., 65536., -0.25};
      double d;
      switch (r.below(3))
        {
        case 0: d = sp[r.below(sizeof(sp) / sizeof(sp[0]))]; break;
        case 1: d = static_cast<double>(static_cast<int64_t>(r.below(1ull << 40)) - (1ll << 39)) / 65536.; break;
        default: { uint64_t u = r.next(); std::memcpy(&d, &u, 8); } break;
        }
      return dbits(d);
      }
    case K_SH: return r.chance(85) ? r.below(64) : static_cast<uint64_t>(-static_cast<int64_t>(1 + r.below(40)));
    case K_ANG: return r.chance(60) ? r.below(1000) : r.below(0x7fffffffull);
    case K_IDX8: return r.below(256);
    case K_IDX360: return r.below(361);
    default: return 0;
    }
  }

static uint64_t alias_arg(Rng & r, Kind k, uint64_t v, AliasKind & kind)
  {
  if (k == K_FX) return alias_fx(r, v, kind);
  switch (r.below(4))
    {
    case 0: kind = AL_SAME; return v;
    case 1: kind = AL_LOW16; if (k == K_ANG) return (v + 65536 * (1 + r.below(3))) & 0x7fffffffull; return v + 65536 * (1 + r.below(3));
    case 2: kind = AL_LOW32; if (k == K_ANG) return (v + 360 * (1 + r.below(1000))) & 0x7fffffffull; return v + (1ull << 32);
    default: kind = AL_BIT; if (k == K_ANG || k == K_IDX8 || k == K_IDX360) { kind = AL_SAME; return v; } return v ^ (1ull << r.below(16));
    }
  }

struct Item { uint8_t client; uint16_t op; uint64_t a, b; uint8_t alias; int16_t alias_of; int32_t fail_alloc = 0; };   // fail_alloc n > 0: the n-th allocation this call requests fails
struct Plan { int clients; std::vector<Item> items; std::vector<std::pair<uint32_t, uint8_t>> respawn; uint64_t hash; bool nontrivial; bool sweep = false; };

// alias sweep (round H): one operation asked one base question and 48-400 of its aliases at ONE stride with many different
// multipliers (base + k*2^32 for hundreds of k, ...).  A table indexed by a hash of the whole argument and tagged with a
// truncated one separates two aliases only by the slot; with k <= 3 (the ordinary aliasing variants) two of them almost
// never meet in one slot, with hundreds of k they do, for any table of up to a few thousand slots.
static bool gen_sweep_plan(uint64_t seed, int min_clients, Plan & p)
  {
  Rng r(seed ^ 0x243f6a8885a308d3ull);
  if (r.below(1000) >= 12) return false;
  p.clients = std::max(min_clients, r.chance(70) ? 1 : 2);
  static const int fams[] = {FAM_SQRT, FAM_SQRT, FAM_SQRT, FAM_TRIG, FAM_TRIG, FAM_ATRIG, FAM_ATRIG, FAM_ANGLE, FAM_TABLE, FAM_TABLE, FAM_MISC, FAM_CONV};
  int fam = fams[r.below(sizeof(fams) / sizeof(fams[0]))];
  std::vector<uint16_t> c;
  for (size_t j = 0; j < g_ops.size(); ++j) if (g_ops[j].family == fam) c.push_back(static_cast<uint16_t>(j));
  if (c.empty()) return false;
  uint16_t opi = c[r.below(c.size())];
  const Op & op = g_ops[opi];
  static const AliasKind kinds[] = {AL_LOW32, AL_LOW32, AL_LOW32, AL_LOW24, AL_LOW16, AL_LOW16, AL_LOW48, AL_2PI, AL_PI};
  AliasKind ak = kinds[r.below(sizeof(kinds) / sizeof(kinds[0]))];
  uint64_t stride = ak == AL_LOW32 ? (1ull << 32) : ak == AL_LOW24 ? (1ull << 24) : ak == AL_LOW16 ? (1ull << 16) : ak == AL_LOW48 ? (1ull << 48) : ak == AL_2PI ? 2ull * PHI_RAW : static_cast<uint64_t>(PHI_RAW);
  // keep base + k*stride inside the 48-bit domain most functions are defined on (a quarter of the sweeps may leave it)
  uint64_t room = (1ull << 47) / stride; if (room < 4) room = 32768; if (room > (1ull << 20)) room = 1ull << 20;
  if (r.chance(25)) room *= 4;
  uint64_t base = (op.ka == K_FX && r.chance(60)) ? 1 + r.below(stride < (1ull << 40) ? stride : (1ull << 40)) : fresh_arg(r, op.ka);
  if (op.ka == K_SH) return false;                           // shift counts have a seven-bit domain: nothing to sweep
  if (op.ka != K_FX)
    {   // integer, float, angle and table-index carriers: their generators (fresh_arg) own the argument domain - stay inside it.
        // Strides are multiples of 65536 (beyond a 16-bit carrier: the same question; within a wider one: same low half)
        // or, for angles, of 360 degrees; angles stay non-negative 31-bit values as everywhere else in the workload.
    bool deg = op.ka == K_ANG && r.chance(50);
    stride = deg ? 360 : (1ull << 16); ak = deg ? AL_LOW32 : AL_LOW16; room = deg ? 1000000 : 30000;
    }
  uint64_t b0 = fresh_arg(r, op.kb);
  size_t n = 48 + r.below(353);
  p.nontrivial = true; p.sweep = true;
  for (size_t i = 0; i < n; ++i)
    {
    Item it{}; it.client = static_cast<uint8_t>(r.below(p.clients)); it.op = opi; it.alias = static_cast<uint8_t>(i ? ak : AL_NONE); it.alias_of = i ? 0 : -1;
    if (i > 4 && r.chance(12)) { const Item & e = p.items[r.below(i)]; it.a = e.a; it.b = e.b; it.alias = AL_SAME; }       // ask an earlier one again
    else { it.a = i ? base + (1 + r.below(room)) * stride : base; if (op.ka == K_ANG) it.a &= 0x7fffffffull; it.b = r.chance(85) ? b0 : fresh_arg(r, op.kb); }
    if (!op.ok(it.a, it.b)) { it.a = 65536; it.b = (op.kb == K_FX) ? 65536 : 1; it.alias = AL_NONE; it.alias_of = -1; }
    p.items.push_back(it);
    }
  uint64_t h = mix64(0x5eed, static_cast<uint64_t>(p.clients));
  for (const Item & it : p.items) { h = mix64(h, it.client); h = mix64(h, it.op); h = mix64(h, it.a); h = mix64(h, it.b); }
  p.hash = h;
  return true;
  }

static Plan gen_plan(uint64_t seed, int min_clients)
  {
  { Plan sw; if (gen_sweep_plan(seed, min_clients, sw)) return sw; }
  Rng r(seed ^ 0x5851f42d4c957f2dull);
  Plan p;
  unsigned kc = r.below(100);
  p.clients = kc < 28 ? 1 : kc < 60 ? 2 : kc < 78 ? 3 : kc < 92 ? 4 : 5 + static_cast<int>(r.below(4));
  if (p.clients < min_clients) p.clients = min_clients;
  size_t n = 6 + r.below(40);
  // swarm: a few focus operations per run so the same entry point is hit repeatedly
  size_t nfocus = 1 + r.below(4);
  // a few runs are long and narrow: hundreds of calls to one or two entry points, mostly with fresh arguments, so that
  // small caches fill, evict and wrap, and call counters get somewhere
  unsigned lr = static_cast<unsigned>(r.below(1000));
  bool long_run = lr < 40, very_long = lr < 10;
  if (long_run) { n = 150 + r.below(1100); nfocus = 1 + r.below(2); }
  if (very_long) { n = 3000 + r.below(9000); }           // enough distinct arguments to fill and wrap a few-thousand-entry table
  unsigned alias_pct = very_long ? 20 : long_run ? 35 : 60, focus_pct = long_run ? 97 : 85;
  // hot loop: one entry point asked the same one-to-three questions (and their exact aliases) tens of thousands of times,
  // usually by a single caller - what a render or control loop does; use counters and ageing policies need this to move
  bool hot_loop = r.below(10000) < 15;
  if (hot_loop) { n = 70000 + r.below(70000); nfocus = 1; alias_pct = 100; focus_pct = 100; if (r.chance(70)) p.clients = std::max(1, min_clients); }
  // crowd: more live callers than any fixed-size per-thread table is likely to have slots for
  bool crowd = !hot_loop && r.below(1000) < 5;
  if (crowd) { p.clients = 66 + static_cast<int>(r.below(25)); n = 150 + r.below(250); nfocus = 1 + r.below(2); focus_pct = 97; alias_pct = 35; }
  // churn storm: hundreds of caller threads come and go (a thread-per-task program), few alive at a time
  bool storm = !crowd && !hot_loop && r.below(1000) < 3;
  size_t storm_restarts = 260 + r.below(340);
  if (storm) { n = storm_restarts * (2 + r.below(3)); nfocus = 1; focus_pct = 98; alias_pct = 35; if (p.clients < 2) p.clients = 2 + static_cast<int>(r.below(3)); }   // every short-lived thread gets to make a few calls
  std::vector<uint16_t> focus;
  for (size_t i = 0; i < nfocus; ++i)
    {
    // pick a family first (the math and table families are where a cache or a lazy table would live,
    // so they get more weight), then an operation inside it
    static const int fam_weight[] = {FAM_ARITH, FAM_CONV, FAM_MISC, FAM_SQRT, FAM_SQRT, FAM_SQRT, FAM_TRIG, FAM_TRIG, FAM_TRIG,
                                     FAM_ATRIG, FAM_ATRIG, FAM_ATRIG, FAM_ANGLE, FAM_ANGLE, FAM_TABLE, FAM_TABLE, FAM_TABLE};
    int fam = fam_weight[r.below(sizeof(fam_weight) / sizeof(fam_weight[0]))];
    std::vector<uint16_t> c;
    for (size_t j = 0; j < g_ops.size(); ++j) if (g_ops[j].family == fam) c.push_back(static_cast<uint16_t>(j));
    focus.push_back(c[r.below(c.size())]);
    }
  p.nontrivial = false;
  for (size_t i = 0; i < n; ++i)
    {
    Item it{};
    it.client = static_cast<uint8_t>(r.below(p.clients));
    it.op = r.chance(focus_pct) ? focus[r.below(focus.size())] : static_cast<uint16_t>(r.below(g_ops.size()));
    if (hot_loop && i >= 1) it.op = p.items[0].op;
    const Op & op = g_ops[it.op];
    it.alias = AL_NONE; it.alias_of = -1;
    for (int attempt = 0; attempt < 20; ++attempt)
      {
      it.alias = AL_NONE; it.alias_of = -1;
      // earlier call whose first argument we alias: same op preferred, else any op with the same argument kind
      int src = -1;
      if (hot_loop && i >= 3)
        {
        src = static_cast<int>(r.below(3));
        }
      else if (i > 0 && r.chance(alias_pct))
        {
        std::vector<int> same, kind;
        for (size_t j = (i > 64 && r.chance(50)) ? i - 64 : 0; j < i; ++j)
          {
          if (p.items[j].op == it.op) same.push_back(static_cast<int>(j));
          else if (g_ops[p.items[j].op].ka == op.ka) kind.push_back(static_cast<int>(j));
          }
        if (!same.empty() && (kind.empty() || r.chance(80))) src = same[r.below(same.size())];
        else if (!kind.empty()) src = kind[r.below(kind.size())];
        }
      if (src >= 0)
        {
        AliasKind ak = AL_NONE;
        if (hot_loop)
          {   // the same question, or one of its exact equivalents
          static const AliasKind eq[] = {AL_SAME, AL_SAME, AL_SAME, AL_SAME, AL_NEG, AL_PI, AL_2PI, AL_LOW32};
          uint64_t v = p.items[src].a; ak = eq[r.below(8)];
          uint64_t k2 = 1 + r.below(3);
          it.a = g_ops[it.op].ka != K_FX ? v : ak == AL_NEG ? 0 - v : ak == AL_PI ? v + k2 * PHI_RAW : ak == AL_2PI ? v + k2 * 2 * PHI_RAW : ak == AL_LOW32 ? v + (k2 << 32) : v;
          if (g_ops[it.op].ka != K_FX) ak = AL_SAME;
          }
        else
        it.a = alias_arg(r, op.ka, p.items[src].a, ak);
        it.alias = static_cast<uint8_t>(ak); it.alias_of = static_cast<int16_t>(src);
        it.b = (op.kb == g_ops[p.items[src].op].kb && r.chance(70)) ? p.items[src].b : fresh_arg(r, op.kb);
        }
      else
        {
        it.a = fresh_arg(r, op.ka);
        it.b = fresh_arg(r, op.kb);
        }
      if (op.ok(it.a, it.b)) break;
      it.a = 65536; it.b = (op.kb == K_FX) ? 65536 : 1; it.alias = AL_NONE; it.alias_of = -1;
      }
    if (it.alias_of >= 0) p.nontrivial = true;
    p.items.push_back(it);
    }
  // thread churn: some runs retire caller threads and start new ones in their place (fresh thread-local state,
  // a growing count of threads the library has ever seen)
  if ((r.chance(15) || storm) && !crowd)
    {
    size_t cnt = storm ? storm_restarts : r.chance(50) ? 1 + r.below(4) : 6 + r.below(14);
    // in a storm one or two callers are residents that are never restarted (the long-lived main/worker threads of a
    // thread-per-task program); everyone else comes and goes
    int residents = storm ? 1 + static_cast<int>(r.below(2)) : 0;
    if (residents >= p.clients) residents = p.clients - 1;
    for (size_t k = 0; k < cnt; ++k)
      p.respawn.push_back({static_cast<uint32_t>(r.below(n)), static_cast<uint8_t>(residents + r.below(static_cast<uint64_t>(p.clients - residents)))});
    std::sort(p.respawn.begin(), p.respawn.end());
    }
  uint64_t h = mix64(0x1234, static_cast<uint64_t>(p.clients));
  for (auto & e : p.respawn) h = mix64(h, (static_cast<uint64_t>(e.first) << 8) | e.second);
  for (const Item & it : p.items) { h = mix64(h, it.client); h = mix64(h, it.op); h = mix64(h, it.a); h = mix64(h, it.b); }
  p.hash = h;
  return p;
  }

// ---------------------------------------------------------------------------------------------
// schedules: a list of segments; the calls of one segment are in flight together (one per client)
static const uint8_t SW_START = 255;
static const uint32_t SW_AT_END = 0xffffffffu;
static const uint8_t SW_NEST = 254;      // Switch.to: not a hand-off - deliver a "signal" to `from` here: its handler makes the segment's next nested call on from's own thread
struct Switch { uint8_t from; uint32_t idx; uint8_t to; };   // from = SW_START: who runs first; idx = SW_AT_END: when from's call returns
struct Segment { std::vector<int> items; std::vector<Switch> script; unsigned den; int budget; std::vector<uint8_t> respawn; std::vector<uint64_t> focus; char phase = 'm';
                 std::vector<int> nested; int nest_host = -1; unsigned nest_den = 0; };   // nested: calls made from a simulated signal handler that interrupts nest_host's call (same thread; DESIGN 9.8)   // phase: e = before the library's initialisers, m = main, l = after its destructors
struct Schedule { int clients; std::vector<Item> items; std::vector<Segment> segs; bool log_access = false; int clock_policy = 0; uint64_t clock_seed = 0; };

using Respawns = std::vector<std::pair<uint32_t, uint8_t>>;      // (before the segment that holds item #first, restart client #second)
static Schedule serial_schedule(const std::vector<Item> & items, const std::vector<int> & order, int clients, const Respawns & rs = Respawns())
  {
  Schedule s; s.clients = clients; s.items = items;
  for (int i : order)
    {
    Segment g; g.items = {i}; g.den = 0; g.budget = 0;
    for (auto & e : rs) if (static_cast<int>(e.first) == i) g.respawn.push_back(e.second);
    s.segs.push_back(g);
    }
  return s;
  }

// group some adjacent calls of distinct clients into concurrent segments (seeded)
static Schedule fine_schedule(const Plan & p, uint64_t sched_seed)
  {
  Rng r(sched_seed ^ 0x2545f4914f6cdd1dull);
  Schedule s; s.clients = p.clients; s.items = p.items;
  static const unsigned dens[] = {2, 2, 4, 8, 16, 64};
  size_t i = 0, n = p.items.size();
  while (i < n)
    {
    Segment g; g.den = dens[r.below(sizeof(dens) / sizeof(dens[0]))]; g.budget = 1 + static_cast<int>(r.below(6));
    g.items.push_back(static_cast<int>(i));
    size_t j = i + 1;
    if (r.chance(70))
      {
      size_t want = r.chance(75) ? 2 : 3;
      while (j < n && g.items.size() < want)
        {
        bool clash = false;
        for (int k : g.items) if (p.items[k].client == p.items[j].client) clash = true;
        if (clash) break;
        g.items.push_back(static_cast<int>(j)); ++j;
        }
      }
    for (auto & e : p.respawn) if (e.first >= i && e.first < j) g.respawn.push_back(e.second);
    s.segs.push_back(g);
    i = j;
    }
  // same-thread re-entrancy (DESIGN 9.8): some calls are interrupted by a simulated signal whose handler asks the library
  // another question on the same thread.  Drawn from a generator of its own, and the nested question is a *copy* of a plan
  // item, so the grouping and every preemption decision above are what they would be without it.
  Rng rn(sched_seed ^ 0x510e527fade682d1ull);
  if (getenv("HSIM_NO_REENTRANCY")) return s;            // a maintainer who does not promise signal-safety can leave this dimension out
  static const unsigned nden[] = {1, 2, 3, 4, 8, 16};
  for (Segment & g : s.segs)
    {
    if (!rn.chance(25)) continue;
    int host = g.items[rn.below(g.items.size())];
    int src = -1;
    if (rn.chance(70))
      {   // prefer a different question to the same operation (what a per-thread memo or scratch buffer of that function gets wrong)
      int cand[16], nc = 0;
      for (size_t q = 0; q < n && nc < 16; ++q) if (p.items[q].op == p.items[host].op && (p.items[q].a != p.items[host].a || p.items[q].b != p.items[host].b)) cand[nc++] = static_cast<int>(q);
      if (nc) src = cand[rn.below(static_cast<uint64_t>(nc))];
      }
    if (src < 0) src = static_cast<int>(rn.below(n));
    s.items.push_back(p.items[src]); s.items.back().client = p.items[host].client; s.items.back().fail_alloc = 0;
    g.nested.push_back(static_cast<int>(s.items.size() - 1)); g.nest_host = p.items[host].client; g.nest_den = nden[rn.below(6)];
    }
  return s;
  }

// ---------------------------------------------------------------------------------------------
// execution (child side): simulated clients are real threads; exactly one holds the baton
struct Res { uint32_t status; uint32_t pad; uint64_t bits; };      // status 0 = returned, else signal number, 255 = not executed
static inline bool same(const Res & x, const Res & y) { return x.status == y.status && (x.status != 0 || x.bits == y.bits); }
struct TraceRec { uint32_t seg; uint32_t from; uint32_t idx; uint32_t to; };
struct AccessRec { uint32_t item; uint32_t is_write; uint64_t addr; };     // one distinct non-stack address touched by one call

static thread_local sigjmp_buf tl_env;
static thread_local volatile sig_atomic_t tl_armed = 0;
static thread_local int tl_client = -1;
static thread_local bool tl_in_call = false;
static thread_local uintptr_t tl_stack_lo = 0, tl_stack_hi = 0;
static thread_local uint32_t tl_yield_idx = 0;
static thread_local int tl_item = -1;
static thread_local bool tl_nested = false;          // inside a call made from the simulated signal handler
static bool g_log_access = false;
static std::vector<AccessRec> g_access;
static const size_t ACCESS_PER_CALL = 96, ACCESS_TOTAL = 400000;
static thread_local size_t tl_access_begin = 0;

// ---- the clock (DESIGN 9.6): while a simulated call runs, time is what the simulator says it is -------------------
#include <sys/syscall.h>
#include <sys/time.h>
#include <time.h>
static uint64_t g_clock_queries = 0;
static uint64_t g_sim_now_ns = 0, g_sim_elapsed_ns = 0;
static int g_clock_policy = 0;                       // 0 steady, 1 jumpy
static Rng g_clock_rng(0);
static const uint64_t SIM_EPOCH_NS = 1700000000ull * 1000000000ull;
static void sim_advance(bool per_call)
  {
  uint64_t step;
  if (g_clock_policy == 0) step = per_call ? 10000 : 1000;
  else if (per_call)
    {
    switch (g_clock_rng.below(6))
      {
      case 0: step = 1000 + g_clock_rng.below(100000); break;                       // microseconds
      case 1: step = 1000000 + g_clock_rng.below(50000000); break;                  // milliseconds
      case 2: step = 900000000ull + g_clock_rng.below(200000000ull); break;          // about a second
      case 3: step = 1000000000ull * (1 + g_clock_rng.below(120)); break;            // seconds to minutes
      case 4: step = 3600ull * 1000000000ull * (1 + g_clock_rng.below(48)); break;   // hours to days
      default: step = 0; break;                                                      // time stands still
      }
    }
  else step = g_clock_rng.below(2000000);
  g_sim_now_ns += step; g_sim_elapsed_ns += step;
  }
static inline bool tl_in_call_fwd() { return tl_in_call; }
extern "C"
  {
  int clock_gettime(clockid_t id, struct timespec * ts)
    {
    if (!tl_in_call_fwd()) return static_cast<int>(syscall(SYS_clock_gettime, id, ts));
    ++g_clock_queries; sim_advance(false);
    uint64_t t = g_sim_now_ns;
    if (id != CLOCK_REALTIME && id != CLOCK_REALTIME_COARSE) t -= SIM_EPOCH_NS - 1000000000ull;     // monotonic-like clocks start near zero
    ts->tv_sec = static_cast<time_t>(t / 1000000000ull); ts->tv_nsec = static_cast<long>(t % 1000000000ull);
    return 0;
    }
  int gettimeofday(struct timeval * tv, void * tz)
    {
    if (!tl_in_call_fwd()) return static_cast<int>(syscall(SYS_gettimeofday, tv, tz));
    ++g_clock_queries; sim_advance(false);
    if (tv) { tv->tv_sec = static_cast<time_t>(g_sim_now_ns / 1000000000ull); tv->tv_usec = static_cast<suseconds_t>((g_sim_now_ns % 1000000000ull) / 1000); }
    return 0;
    }
  time_t time(time_t * out)
    {
    time_t v;
    if (!tl_in_call_fwd()) { struct timespec ts; syscall(SYS_clock_gettime, CLOCK_REALTIME, &ts); v = ts.tv_sec; }
    else { ++g_clock_queries; sim_advance(false); v = static_cast<time_t>(g_sim_now_ns / 1000000000ull); }
    if (out) *out = v;
    return v;
    }
  clock_t clock(void)
    {
    if (!tl_in_call_fwd()) { struct timespec ts; syscall(SYS_clock_gettime, CLOCK_PROCESS_CPUTIME_ID, &ts); return static_cast<clock_t>(ts.tv_sec * CLOCKS_PER_SEC + ts.tv_nsec / (1000000000 / CLOCKS_PER_SEC)); }
    ++g_clock_queries; sim_advance(false);
    return static_cast<clock_t>((g_sim_now_ns - SIM_EPOCH_NS) / (1000000000ull / CLOCKS_PER_SEC));
    }
  }

// ---- the one fault kind: allocation failure inside a library call (DESIGN 9.5) ----------------------------------
static uint64_t g_alloc_in_calls = 0, g_alloc_failed = 0;
static thread_local int32_t tl_alloc_seen = 0, tl_alloc_fail_at = 0;
static thread_local bool tl_in_harness = false;       // set while harness code (yield-point bookkeeping) runs inside a simulated call
static inline bool hsim_alloc_should_fail()
  {
  if (!tl_in_call || tl_in_harness) return false;       // only the library's own requests count
  ++g_alloc_in_calls;
  if (tl_alloc_fail_at > 0 && ++tl_alloc_seen == tl_alloc_fail_at) { ++g_alloc_failed; errno = ENOMEM; return true; }
  return false;
  }
extern "C"
  {
  void * __libc_malloc(size_t); void * __libc_calloc(size_t, size_t); void * __libc_realloc(void *, size_t); void * __libc_memalign(size_t, size_t);
  void * malloc(size_t n) { return hsim_alloc_should_fail() ? nullptr : __libc_malloc(n); }
  void * calloc(size_t a, size_t b) { return hsim_alloc_should_fail() ? nullptr : __libc_calloc(a, b); }
  void * realloc(void * p, size_t n) { return hsim_alloc_should_fail() ? nullptr : __libc_realloc(p, n); }
  void * memalign(size_t al, size_t n) { return hsim_alloc_should_fail() ? nullptr : __libc_memalign(al, n); }
  void * aligned_alloc(size_t al, size_t n) { return hsim_alloc_should_fail() ? nullptr : __libc_memalign(al, n); }
  int posix_memalign(void ** out, size_t al, size_t n)
    { if (hsim_alloc_should_fail()) return ENOMEM; void * p = __libc_memalign(al, n); if (!p) return ENOMEM; *out = p; return 0; }
  }

static void on_signal(int sig)
  {
  if (tl_armed) { tl_armed = 0; siglongjmp(tl_env, sig); }
  signal(sig, SIG_DFL); raise(sig);
  }

enum { ST_OUT = 0, ST_PENDING = 1, ST_RUNNING = 2, ST_DONE = 3 };
struct ClientSlot { sem_t go; const Item * item; Res res; bool quit; };
static const int MAX_CLIENTS = 96;
static ClientSlot g_slots[MAX_CLIENTS];
static sem_t g_done;
static uint64_t g_threads_started = 0;
static struct
  {
  bool active = false;          // a multi-call segment is in flight
  bool scripted = false;
  int nclients = 0;
  int state[96] = {0};
  Rng rng;
  unsigned den = 0; int budget = 0;
  const std::vector<Switch> * script = nullptr;
  const std::vector<uint64_t> * focus = nullptr;   // addresses two calls of this segment conflict on: preempt there
  std::vector<char> used;
  uint32_t seg_index = 0;
  std::vector<TraceRec> trace;
  uint64_t yields = 0, switches = 0;
  } g_fine;

static struct { const std::vector<int> * items = nullptr; size_t next = 0; int host = -1; unsigned den = 0; Rng rng; } g_nest;
static std::vector<Res> * g_out = nullptr;
static uint64_t g_nests_fired = 0;
static void run_nested(int item_index);
static bool script_lookup_nest(uint8_t from, uint32_t idx)
  {
  if (!g_fine.script) return false;
  for (size_t k = 0; k < g_fine.script->size(); ++k)
    {
    const Switch & w = (*g_fine.script)[k];
    if (!g_fine.used[k] && w.to == SW_NEST && w.from == from && w.idx == idx) { g_fine.used[k] = 1; return true; }
    }
  return false;
  }

static int pick_runnable(int me, bool random_pick)
  {
  int cand[96], n = 0;
  for (int c = 0; c < g_fine.nclients; ++c)
    if (c != me && (g_fine.state[c] == ST_PENDING || g_fine.state[c] == ST_RUNNING)) cand[n++] = c;
  if (!n) return -1;
  return random_pick ? cand[g_fine.rng.below(n)] : cand[0];
  }
static int script_lookup(uint8_t from, uint32_t idx)
  {
  if (!g_fine.script) return -1;
  for (size_t k = 0; k < g_fine.script->size(); ++k)
    {
    const Switch & w = (*g_fine.script)[k];
    if (!g_fine.used[k] && w.to != SW_NEST && w.from == from && w.idx == idx) { g_fine.used[k] = 1; return w.to; }
    }
  return -1;
  }
static void handoff(int me, int target)
  {
  ++g_fine.switches;
  sem_post(&g_slots[target].go);
  while (sem_wait(&g_slots[me].go) != 0 && errno == EINTR) {}
  }

// blocking primitives are simulated for the whole of every simulated call (also in single-call segments, where
// nothing can contend), so that their state stays consistent across the segments of one execution
extern "C" int hsim_in_call() { return tl_in_call ? 1 : 0; }

// called (through sim/tsan_shim.cc) before every instrumented memory access of library code
static void hsim_yield_impl(const void * addr, int is_write);
extern "C" void hsim_yield(const void * addr, int is_write)
  {
  if (!tl_in_call || tl_in_harness) return;
  tl_in_harness = true; hsim_yield_impl(addr, is_write); tl_in_harness = false;
  }
static void hsim_yield_impl(const void * addr, int is_write)
  {
  if (!tl_in_call) return;
  uintptr_t a = reinterpret_cast<uintptr_t>(addr);
  if (a >= tl_stack_lo && a < tl_stack_hi) return;             // the caller's own stack: private by construction
  if (g_log_access && g_access.size() < ACCESS_TOTAL && g_access.size() - tl_access_begin < ACCESS_PER_CALL)
    {   // remember each distinct (address, kind) this call touches: the zygote uses it to aim concurrency at real conflicts
    bool seen = false;
    for (size_t k = tl_access_begin; k < g_access.size() && !seen; ++k) seen = g_access[k].addr == a && g_access[k].is_write == static_cast<uint32_t>(is_write);
    if (!seen) g_access.push_back(AccessRec{static_cast<uint32_t>(tl_item), static_cast<uint32_t>(is_write), a});
    }
  if (tl_nested) return;                                       // the handler's own call is not interrupted again
  uint32_t idx = tl_yield_idx++;
  int me = tl_client, target = -1;
  if (g_nest.items && g_nest.next < g_nest.items->size() && me == g_nest.host)
    {   // deliver the simulated signal here?
    bool fire;
    if (g_fine.scripted) fire = script_lookup_nest(static_cast<uint8_t>(me), idx);
    else
      {
      bool hot = false;
      if (g_fine.focus) for (uint64_t f : *g_fine.focus) if (f == a) hot = true;
      fire = hot ? g_nest.rng.below(2) == 0 : (g_nest.den && g_nest.rng.below(g_nest.den) == 0);
      if (fire) g_fine.trace.push_back(TraceRec{g_fine.seg_index, static_cast<uint32_t>(me), idx, SW_NEST});
      }
    if (fire) run_nested((*g_nest.items)[g_nest.next++]);
    }
  if (!g_fine.active) return;
  ++g_fine.yields;
  if (g_fine.scripted) target = script_lookup(static_cast<uint8_t>(me), idx);
  else if (g_fine.budget > 0 || g_fine.den == 1)
    {
    bool hot = false;
    if (g_fine.focus) for (uint64_t f : *g_fine.focus) if (f == a) hot = true;
    if (g_fine.den == 1)
      {   // one-preemption strategy: stop the first runner just before its budget-th conflicting access, let the other
          // call run to completion, resume.  The classic shape of a lost update / torn pair.
      if (hot && g_fine.budget > 0 && --g_fine.budget == 0) target = pick_runnable(me, true);
      }
    else if (hot ? g_fine.rng.below(2) == 0 : (g_fine.den && g_fine.rng.below(g_fine.den) == 0)) target = pick_runnable(me, true);
    }
  if (target < 0 || target == me || target >= g_fine.nclients) return;
  if (g_fine.state[target] != ST_PENDING && g_fine.state[target] != ST_RUNNING) return;
  if (!g_fine.scripted) { if (g_fine.den != 1) --g_fine.budget; g_fine.trace.push_back(TraceRec{g_fine.seg_index, static_cast<uint32_t>(me), idx, static_cast<uint32_t>(target)}); }
  handoff(me, target);
  }

// a simulated call that must wait for another caller (mutex, guarded static): pass the baton until pred holds
extern "C" void hsim_wait_until(int (*pred)(void *), void * arg)
  {
  struct Guard { bool prev; Guard() : prev(tl_in_harness) { tl_in_harness = true; } ~Guard() { tl_in_harness = prev; } } guard;
  int me = tl_client;
  if (tl_nested) { if (pred(arg)) return; _exit(6); }           // a handler waiting for what (possibly) its own interrupted thread holds: not a value, not a hang of ours
  if (!g_fine.active) { if (pred(arg)) return; _exit(5); }    // alone in the library and still blocked: self-deadlock
  for (int spins = 0; !pred(arg); ++spins)
    {
    int target = pick_runnable(me, false);
    if (target < 0 || spins > 100000) _exit(5);                // nobody can make progress: report as a hung child
    handoff(me, target);
    }
  }

static const Item * g_items_base = nullptr;
static Res call_once(const Item & it)
  {
  Res r{255, 0, 0};
  int sig = sigsetjmp(tl_env, 1);
  if (sig == 0)
    {
    tl_armed = 1; tl_yield_idx = 0; tl_access_begin = g_access.size(); tl_item = static_cast<int>(&it - g_items_base); tl_alloc_seen = 0; tl_alloc_fail_at = it.fail_alloc; sim_advance(true); tl_in_call = true;
    uint64_t v = g_ops[it.op].fn(it.a, it.b);
    tl_in_call = false; tl_armed = 0;
    r.status = 0; r.bits = v;
    }
  else { tl_in_call = false; r.status = static_cast<uint32_t>(sig); r.bits = 0; }
  return r;
  }

// the simulated signal handler: one more library call, on the interrupted caller's own thread, in the middle of its call
static void run_nested(int item_index)
  {
  sigjmp_buf saved_env; std::memcpy(&saved_env, &tl_env, sizeof saved_env);
  uint32_t yi = tl_yield_idx; int titem = tl_item; size_t ab = tl_access_begin; int32_t as = tl_alloc_seen, af = tl_alloc_fail_at;
  ++g_nests_fired;
  tl_nested = true; tl_in_harness = false;
  Res r = call_once(g_items_base[item_index]);
  tl_in_harness = true; tl_nested = false;
  std::memcpy(&tl_env, &saved_env, sizeof saved_env);
  tl_armed = 1; tl_in_call = true; tl_yield_idx = yi; tl_item = titem; tl_access_begin = ab; tl_alloc_seen = as; tl_alloc_fail_at = af;
  if (g_out) (*g_out)[static_cast<size_t>(item_index)] = r;
  }

static void * client_main(void * p)
  {
  ClientSlot * s = static_cast<ClientSlot *>(p);
  tl_client = static_cast<int>(s - g_slots);
  pthread_attr_t at; void * sa = nullptr; size_t ss = 0;
  if (pthread_getattr_np(pthread_self(), &at) == 0) { pthread_attr_getstack(&at, &sa, &ss); pthread_attr_destroy(&at); }
  tl_stack_lo = reinterpret_cast<uintptr_t>(sa); tl_stack_hi = tl_stack_lo + ss;
  // glibc places the thread's static TLS block and its descriptor at the top of the same mapping: everything above this
  // frame is not call stack.  thread_local state of the library must be a yield point (it is shared with a signal
  // handler running on this thread, DESIGN 9.8), so the private range ends here.
  { volatile char frame_marker = 0; uintptr_t top = reinterpret_cast<uintptr_t>(&frame_marker) + 64; if (top > tl_stack_lo && top < tl_stack_hi) tl_stack_hi = top; }
  for (;;)
    {
    while (sem_wait(&s->go) != 0 && errno == EINTR) {}
    if (s->quit) return nullptr;
    int me = tl_client;
    if (g_fine.active) g_fine.state[me] = ST_RUNNING;
    s->res = call_once(*s->item);
    if (!g_fine.active) { sem_post(&g_done); continue; }
    g_fine.state[me] = ST_DONE;
    int next = -1;
    if (g_fine.scripted)
      {
      next = script_lookup(static_cast<uint8_t>(me), SW_AT_END);
      if (next >= 0 && (next >= g_fine.nclients || (g_fine.state[next] != ST_PENDING && g_fine.state[next] != ST_RUNNING))) next = -1;
      if (next < 0) next = pick_runnable(me, false);
      }
    else
      {
      next = pick_runnable(me, true);
      if (next >= 0) g_fine.trace.push_back(TraceRec{g_fine.seg_index, static_cast<uint32_t>(me), SW_AT_END, static_cast<uint32_t>(next)});
      }
    if (next >= 0) sem_post(&g_slots[next].go); else sem_post(&g_done);
    }
  }

static void write_all(int fd, const void * p, size_t n)
  {
  const char * b = static_cast<const char *>(p); size_t off = 0;
  while (off < n) { ssize_t w = write(fd, b + off, n - off); if (w <= 0) _exit(4); off += static_cast<size_t>(w); }
  }

// runs in a forked child: execute the schedule, write Res per item index + the decision trace, exit
[[noreturn]] static void child_execute(const Schedule & sc, bool scripted, uint64_t sched_seed, int fd)
  {
  {   // exactly one simulated thread runs at any instant: keep them all on the CPU we are on, so a baton handoff is a
      // same-core context switch instead of a cross-core wake-up (which can cost 50-100 us when cores idle)
  int cpu = sched_getcpu();
  if (cpu >= 0) { cpu_set_t set; CPU_ZERO(&set); CPU_SET(cpu, &set); sched_setaffinity(0, sizeof set, &set); }
  }
  struct sigaction sa{};
  sa.sa_handler = on_signal; sigemptyset(&sa.sa_mask); sa.sa_flags = SA_NODEFER;
  sigaction(SIGFPE, &sa, nullptr); sigaction(SIGSEGV, &sa, nullptr); sigaction(SIGBUS, &sa, nullptr); sigaction(SIGILL, &sa, nullptr); sigaction(SIGABRT, &sa, nullptr);
  sem_init(&g_done, 0, 0);
  pthread_t th[MAX_CLIENTS];
  for (int c = 0; c < sc.clients; ++c)
    {
    sem_init(&g_slots[c].go, 0, 0); g_slots[c].quit = false;
    if (pthread_create(&th[c], nullptr, client_main, &g_slots[c]) != 0) _exit(3);
    ++g_threads_started;
    }
  g_items_base = sc.items.data(); g_log_access = sc.log_access;
  g_sim_now_ns = SIM_EPOCH_NS; g_sim_elapsed_ns = 0; g_clock_policy = sc.clock_policy; g_clock_rng = Rng(sc.clock_seed ^ 0x1f83d9abfb41bd6bull);
  g_fine.nclients = sc.clients; g_fine.scripted = scripted; g_fine.rng = Rng(sched_seed ^ 0x9e3779b97f4a7c15ull);
  std::vector<Res> out(sc.items.size(), Res{255, 0, 0});
  g_out = &out; g_nest.rng = Rng(sched_seed ^ 0x9b05688c2b3e6c1full);
  for (size_t si = 0; si < sc.segs.size(); ++si)
    {
    const Segment & g = sc.segs[si];
    for (uint8_t c : g.respawn)
      if (c < sc.clients)
        {   // retire the caller thread and start a new one in its place
        g_slots[c].quit = true; sem_post(&g_slots[c].go); pthread_join(th[c], nullptr);
        g_slots[c].quit = false;
        if (pthread_create(&th[c], nullptr, client_main, &g_slots[c]) != 0) _exit(3);
        ++g_threads_started;
        }
    if (g.items.empty()) continue;
    g_fine.seg_index = static_cast<uint32_t>(si);
    g_nest.items = g.nested.empty() ? nullptr : &g.nested; g_nest.next = 0; g_nest.host = g.nest_host; g_nest.den = g.nest_den;
    g_fine.script = &g.script; g_fine.focus = g.focus.empty() ? nullptr : &g.focus; g_fine.used.assign(g.script.size(), 0);
    if (g.items.size() == 1)
      {
      g_fine.active = false;
      const Item & it = sc.items[g.items[0]];
      ClientSlot & s = g_slots[it.client];
      s.item = &it; sem_post(&s.go);
      while (sem_wait(&g_done) != 0 && errno == EINTR) {}
      out[g.items[0]] = s.res;
      continue;
      }
    for (int c = 0; c < MAX_CLIENTS; ++c) g_fine.state[c] = ST_OUT;
    for (int k : g.items) { const Item & it = sc.items[k]; g_slots[it.client].item = &it; g_fine.state[it.client] = ST_PENDING; }
    g_fine.den = g.den; g_fine.budget = g.budget; g_fine.script = &g.script; g_fine.focus = g.focus.empty() ? nullptr : &g.focus; g_fine.used.assign(g.script.size(), 0);
    int first = -1;
    if (scripted)
      {
      first = script_lookup(SW_START, 0);
      if (first >= 0 && (first >= sc.clients || g_fine.state[first] != ST_PENDING)) first = -1;
      if (first < 0) first = sc.items[g.items[0]].client;
      }
    else
      {
      first = sc.items[g.items[g_fine.rng.below(g.items.size())]].client;
      g_fine.trace.push_back(TraceRec{static_cast<uint32_t>(si), SW_START, 0, static_cast<uint32_t>(first)});
      }
    g_fine.active = true;
    sem_post(&g_slots[first].go);
    while (sem_wait(&g_done) != 0 && errno == EINTR) {}
    g_fine.active = false;
    for (int k : g.items) out[k] = g_slots[sc.items[k].client].res;
    }
  uint64_t hdr[10] = {g_fine.trace.size(), g_fine.yields, g_fine.switches, g_threads_started, g_access.size(), g_alloc_in_calls, g_alloc_failed, g_clock_queries, g_sim_elapsed_ns, g_nests_fired};
  write_all(fd, out.data(), out.size() * sizeof(Res));
  write_all(fd, hdr, sizeof hdr);
  if (!g_fine.trace.empty()) write_all(fd, g_fine.trace.data(), g_fine.trace.size() * sizeof(TraceRec));
  if (!g_access.empty()) write_all(fd, g_access.data(), g_access.size() * sizeof(AccessRec));
  _exit(0);
  }

// ---------------------------------------------------------------------------------------------
// zygote side
static uint64_t g_resource_failures = 0, g_nests_total = 0, g_nest_deadlocks = 0;
static uint64_t g_allocs_total = 0, g_alloc_failures_total = 0, g_clock_queries_total = 0, g_sim_ns_total = 0;
static uint64_t g_forks = 0, g_hung = 0, g_yields_total = 0, g_switches_total = 0, g_threads_total = 0, g_threads_max = 0;
struct Outcome { std::vector<Res> res; std::vector<TraceRec> trace; std::vector<AccessRec> access; bool complete; uint64_t allocs = 0, alloc_failures = 0; };

static bool read_all(int fd, void * p, size_t n, int timeout_ms)
  {
  char * b = static_cast<char *>(p); size_t off = 0;
  while (off < n)
    {
    struct pollfd pf{fd, POLLIN, 0};
    int pr = poll(&pf, 1, timeout_ms);
    if (pr == 0) return false;
    if (pr < 0) { if (errno == EINTR) continue; return false; }
    ssize_t g = read(fd, b + off, n - off);
    if (g == 0) return false;
    if (g < 0) { if (errno == EINTR) continue; return false; }
    off += static_cast<size_t>(g);
    }
  return true;
  }

static Outcome run_schedule(const Schedule & sc, bool scripted, uint64_t sched_seed)
  {
  int pf[2];
  if (pipe(pf) != 0) { perror("pipe"); exit(2); }
  fflush(stdout);
  pid_t pid = fork();
  if (pid < 0) { perror("fork"); exit(2); }
  ++g_forks;
  if (pid == 0) { close(pf[0]); child_execute(sc, scripted, sched_seed, pf[1]); }
  close(pf[1]);
  Outcome o; o.res.assign(sc.items.size(), Res{255, 0, 0}); o.complete = false;
  uint64_t hdr[10] = {0, 0, 0, 0, 0, 0, 0, 0, 0, 0};
  const int limit_ms = 20000 + static_cast<int>(sc.items.size() / 4);        // a wall-clock guard only; scales with the schedule
  if (read_all(pf[0], o.res.data(), o.res.size() * sizeof(Res), limit_ms) && read_all(pf[0], hdr, sizeof hdr, limit_ms))
    {
    o.trace.resize(hdr[0]);
    o.access.resize(hdr[4]);
    if ((hdr[0] == 0 || read_all(pf[0], o.trace.data(), hdr[0] * sizeof(TraceRec), limit_ms)) &&
        (hdr[4] == 0 || read_all(pf[0], o.access.data(), hdr[4] * sizeof(AccessRec), limit_ms))) o.complete = true;
    g_clock_queries_total += hdr[7]; g_sim_ns_total += hdr[8]; g_nests_total += hdr[9];
    o.allocs = hdr[5]; o.alloc_failures = hdr[6]; g_allocs_total += hdr[5]; g_alloc_failures_total += hdr[6];
    g_yields_total += hdr[1]; g_switches_total += hdr[2]; g_threads_total += hdr[3]; if (hdr[3] > g_threads_max) g_threads_max = hdr[3];
    }
  close(pf[0]);
  bool was_incomplete = !o.complete;
  if (!o.complete) { kill(pid, SIGKILL); for (auto & r : o.res) r = Res{255, 0, 0}; o.trace.clear(); }
  int st = 0; while (waitpid(pid, &st, 0) < 0 && errno == EINTR) {}
  // a child that could not even start its caller threads (exit code 3: the environment refused another thread) is a
  // resource limit of the machine, not a hang of the library: it is counted separately and never stops a worker
  if (was_incomplete) { if (WIFEXITED(st) && WEXITSTATUS(st) == 3) ++g_resource_failures; else if (WIFEXITED(st) && WEXITSTATUS(st) == 6) ++g_nest_deadlocks; else ++g_hung; }
  if (was_incomplete && getenv("HSIM_DEBUG")) fprintf(stderr, "incomplete child: wait status 0x%x (exited=%d code=%d signaled=%d sig=%d) items=%zu clients=%d\n", st, WIFEXITED(st), WIFEXITED(st) ? WEXITSTATUS(st) : -1, WIFSIGNALED(st), WIFSIGNALED(st) ? WTERMSIG(st) : 0, sc.items.size(), sc.clients);
  return o;
  }

// life-cycle probe (DESIGN 9.7): re-execute this binary; sim/early.cc makes the early and late calls, main() the rest
static uint64_t g_lc_probes = 0, g_lc_early = 0, g_lc_late = 0;
static bool is_lifecycle(const Schedule & sc) { for (const Segment & g : sc.segs) if (g.phase != 'm') return true; return false; }
static Outcome run_lifecycle(const Schedule & sc)
  {
  Outcome o; o.res.assign(sc.items.size(), Res{255, 0, 0}); o.complete = false;
  std::string plan; std::vector<int> order_e, order_m, order_l;
  for (const Segment & g : sc.segs)
    for (int k : g.items)
      {
      const Item & it = sc.items[k];
      char buf[96]; snprintf(buf, sizeof buf, "%c,%u,%llx,%llx;", g.phase, static_cast<unsigned>(it.op), static_cast<unsigned long long>(it.a), static_cast<unsigned long long>(it.b));
      plan += buf;
      (g.phase == 'e' ? order_e : g.phase == 'l' ? order_l : order_m).push_back(k);
      }
  int pf[2];
  if (pipe(pf) != 0) { perror("pipe"); exit(2); }
  fflush(stdout);
  pid_t pid = fork();
  if (pid < 0) { perror("fork"); exit(2); }
  ++g_forks; ++g_lc_probes; g_lc_early += order_e.size(); g_lc_late += order_l.size();
  if (pid == 0)
    {
    close(pf[0]);
    char fdbuf[16]; snprintf(fdbuf, sizeof fdbuf, "%d", pf[1]);
    setenv("HSIM_LIFECYCLE_PLAN", plan.c_str(), 1); setenv("HSIM_LIFECYCLE_FD", fdbuf, 1);
    char a0[] = "hsim", a1[] = "--lifecycle-child"; char * av[] = {a0, a1, nullptr};
    execv("/proc/self/exe", av);
    _exit(9);
    }
  close(pf[1]);
  std::string out; char buf[4096];
  for (;;)
    {
    struct pollfd p{pf[0], POLLIN, 0};
    int pr = poll(&p, 1, 10000);
    if (pr == 0) break;
    if (pr < 0) { if (errno == EINTR) continue; break; }
    ssize_t g = read(pf[0], buf, sizeof buf);
    if (g == 0) { o.complete = true; break; }
    if (g < 0) { if (errno == EINTR) continue; break; }
    out.append(buf, static_cast<size_t>(g));
    }
  close(pf[0]);
  if (!o.complete) { kill(pid, SIGKILL); ++g_hung; }
  int st = 0; while (waitpid(pid, &st, 0) < 0 && errno == EINTR) {}
  size_t pos = 0;
  while (pos < out.size())
    {
    size_t nl = out.find('\n', pos); if (nl == std::string::npos) break;
    char ph; unsigned ord, status; unsigned long long bits;
    if (sscanf(out.c_str() + pos, "%c %u %u %llx", &ph, &ord, &status, &bits) == 4)
      {
      const std::vector<int> & ord_v = ph == 'e' ? order_e : ph == 'l' ? order_l : order_m;
      if (ord < ord_v.size()) o.res[ord_v[ord]] = Res{status, 0, bits};
      }
    pos = nl + 1;
    }
  return o;
  }

static std::vector<Res> run_serial(const std::vector<Item> & items, const std::vector<int> & order, int clients, const Respawns & rs = Respawns())
  { return run_schedule(serial_schedule(items, order, clients, rs), true, 0).res; }

static Res isolated(const Item & it)
  {
  std::vector<Item> one{it}; one[0].client = 0; one[0].fail_alloc = 0;
  return run_serial(one, std::vector<int>{0}, 1)[0];
  }

// ---------------------------------------------------------------------------------------------
static std::string hex(uint64_t v) { char b[32]; snprintf(b, sizeof b, "0x%016" PRIx64, v); return b; }
static std::string res_json(const Res & r)
  { return std::string("{\"status\":") + std::to_string(r.status) + ",\"bits\":\"" + hex(r.bits) + "\"}"; }

// does executing the (scripted) schedule give item `victim` something other than iso?
static int g_tests = 0;
static const int MINIMISE_BUDGET = 400;     // re-executions per finding; a count, not a clock, so the result is reproducible
static bool fails(const Schedule & sc, int victim, const Res & iso, Res * seen)
  {
  if (g_tests >= MINIMISE_BUDGET && !seen) return false;       // out of budget: treat every further candidate as "does not fail"
  ++g_tests;
  Outcome o = is_lifecycle(sc) ? run_lifecycle(sc) : run_schedule(sc, true, 0);
  if (seen) *seen = o.res[victim];
  bool faulted = false;
  for (const Segment & g : sc.segs) for (int k : g.items) if (sc.items[k].fail_alloc > 0) faulted = true;
  // under an injected allocation failure a call may die; only "returned normally with other bits" counts
  if (faulted && o.res[victim].status != 0) return false;
  return o.complete && o.res[victim].status != 255 && !same(o.res[victim], iso);
  }

static void drop_client_from_script(Segment & g, uint8_t c)
  {
  std::vector<Switch> k;
  for (const Switch & w : g.script) if (w.from != c && w.to != c) k.push_back(w);
  g.script = k;
  }

// greedy reduction while the victim still differs from its isolated bits
static Schedule minimise(Schedule sc, int victim, const Res & iso)
  {
  // everything after the victim's segment cannot matter
  size_t vs = 0;
  for (size_t s = 0; s < sc.segs.size(); ++s) { for (int k : sc.segs[s].items) if (k == victim) vs = s; for (int k : sc.segs[s].nested) if (k == victim) vs = s; }
  sc.segs.resize(vs + 1);
  // ddmin over whole earlier segments
  {
  std::vector<Segment> head(sc.segs.begin(), sc.segs.end() - 1); Segment last = sc.segs.back();
  size_t n = 2;
  while (head.size() >= 1)
    {
    size_t chunk = (head.size() + n - 1) / n; bool reduced = false;
    for (size_t start = 0; start < head.size() && !reduced; start += chunk)
      {
      Schedule t = sc; t.segs.clear();
      std::vector<uint8_t> orphan;      // thread restarts that belonged to the removed segments
      for (size_t i = 0; i < head.size(); ++i)
        {
        if (i < start || i >= start + chunk) { t.segs.push_back(head[i]); if (!orphan.empty()) { auto & rs = t.segs.back().respawn; rs.insert(rs.begin(), orphan.begin(), orphan.end()); orphan.clear(); } }
        else orphan.insert(orphan.end(), head[i].respawn.begin(), head[i].respawn.end());
        }
      t.segs.push_back(last);
      if (!orphan.empty()) { auto & rs = t.segs.back().respawn; rs.insert(rs.begin(), orphan.begin(), orphan.end()); }
      if (fails(t, victim, iso, nullptr)) { last = t.segs.back(); head.assign(t.segs.begin(), t.segs.end() - 1); n = std::max<size_t>(n - 1, 2); reduced = true; }
      }
    if (!reduced) { if (n >= head.size()) break; n = std::min(head.size(), n * 2); }
    }
  sc.segs = head; sc.segs.push_back(last);
  }
  // drop co-runners, then single switches, until nothing more can go
  for (int pass = 0; pass < 4; ++pass)
    {
    bool changed = false;
    for (size_t s = 0; s < sc.segs.size(); ++s)
      for (size_t k = 0; k < sc.segs[s].items.size() && sc.segs[s].items.size() > 1; )
        {
        if (sc.segs[s].items[k] == victim) { ++k; continue; }
        Schedule t = sc; uint8_t c = t.items[t.segs[s].items[k]].client;
        t.segs[s].items.erase(t.segs[s].items.begin() + static_cast<long>(k)); drop_client_from_script(t.segs[s], c);
        bool ok = fails(t, victim, iso, nullptr);
        if (!ok)
          {   // the removed call may have been the one that started the segment: try every remaining starter
          bool has_start = false;
          for (const Switch & w : t.segs[s].script) if (w.from == SW_START) has_start = true;
          if (!has_start)
            for (size_t q = 0; q < t.segs[s].items.size() && !ok; ++q)
              {
              Schedule u = t;
              u.segs[s].script.insert(u.segs[s].script.begin(), Switch{SW_START, 0, u.items[u.segs[s].items[q]].client});
              if (fails(u, victim, iso, nullptr)) { t = u; ok = true; }
              }
          }
        if (ok) { sc = t; changed = true; } else ++k;
        }
    for (size_t s = 0; s < sc.segs.size(); ++s)
      for (size_t k = 0; k < sc.segs[s].nested.size(); )
        {   // drop a nested (signal-handler) call together with its delivery points
        if (sc.segs[s].nested[k] == victim) { ++k; continue; }
        Schedule t = sc; t.segs[s].nested.erase(t.segs[s].nested.begin() + static_cast<long>(k));
        if (t.segs[s].nested.empty()) { std::vector<Switch> keep; for (const Switch & w : t.segs[s].script) if (w.to != SW_NEST) keep.push_back(w); t.segs[s].script = keep; }
        if (fails(t, victim, iso, nullptr)) { sc = t; changed = true; } else ++k;
        }
    for (size_t s = 0; s < sc.segs.size(); ++s)
      for (size_t k = 0; k < sc.segs[s].respawn.size(); )
        {
        Schedule t = sc; t.segs[s].respawn.erase(t.segs[s].respawn.begin() + static_cast<long>(k));
        if (fails(t, victim, iso, nullptr)) { sc = t; changed = true; } else ++k;
        }
    for (size_t s = 0; s < sc.segs.size(); ++s)
      for (size_t k = 0; k < sc.segs[s].script.size(); )
        {
        Schedule t = sc; t.segs[s].script.erase(t.segs[s].script.begin() + static_cast<long>(k));
        if (fails(t, victim, iso, nullptr)) { sc = t; changed = true; } else ++k;
        }
    if (!changed) break;
    }
  return sc;
  }

static std::string schedule_json(const Schedule & sc, int victim)
  {
  // renumber clients densely so a replay needs no more threads than it uses
  std::map<int, int> ren;
  for (const Segment & g : sc.segs)
    {
    for (uint8_t c : g.respawn) if (!ren.count(c)) { int id = static_cast<int>(ren.size()); ren[c] = id; }
    for (int k : g.items) { int c = sc.items[k].client; if (!ren.count(c)) { int id = static_cast<int>(ren.size()); ren[c] = id; } }
    if (!g.nested.empty() && g.nest_host >= 0 && !ren.count(g.nest_host)) { int id = static_cast<int>(ren.size()); ren[g.nest_host] = id; }
    }
  std::string s = "\"clients\":" + std::to_string(ren.size()) + ",\"segments\":[";
  int vseg = -1, vpos = -1, out_segs = 0; uint64_t pending_repeat = 1;
  bool first_seg = true;
  for (size_t si = 0; si < sc.segs.size(); ++si)
    {
    const Segment & g = sc.segs[si];
    // run-length encode: a single-call segment identical to the previous one only bumps its "repeat"
    if (si > 0 && g.items.size() == 1 && g.nested.empty() && sc.segs[si - 1].nested.empty() && g.respawn.empty() && g.phase == sc.segs[si - 1].phase && sc.segs[si - 1].items.size() == 1 && g.items[0] != victim && sc.segs[si - 1].items[0] != victim)
      {
      const Item & x = sc.items[g.items[0]]; const Item & y = sc.items[sc.segs[si - 1].items[0]];
      if (x.client == y.client && x.op == y.op && x.a == y.a && x.b == y.b && !x.fail_alloc && !y.fail_alloc) { ++pending_repeat; continue; }
      }
    if (!first_seg) { s += ",\"repeat\":" + std::to_string(pending_repeat) + "}"; ++out_segs; }
    pending_repeat = 1; first_seg = false;
    s += std::string(out_segs ? "," : "") + "{" + (g.phase != 'm' ? std::string("\"phase\":\"") + (g.phase == 'e' ? "early" : "late") + "\"," : std::string()) + "\"respawn_before\":[";
    for (size_t k = 0; k < g.respawn.size(); ++k) s += std::string(k ? "," : "") + std::to_string(ren[g.respawn[k]]);
    s += "],\"calls\":[";
    for (size_t k = 0; k < g.items.size(); ++k)
      {
      const Item & it = sc.items[g.items[k]];
      if (g.items[k] == victim) { vseg = out_segs; vpos = static_cast<int>(k); }
      s += std::string(k ? "," : "") + "{\"client\":" + std::to_string(ren[it.client]) + ",\"op\":\"" + g_ops[it.op].name + "\",\"a\":\"" + hex(it.a) + "\",\"b\":\"" + hex(it.b) + "\"" + (it.fail_alloc > 0 ? ",\"fail_alloc\":" + std::to_string(it.fail_alloc) : std::string()) + "}";
      }
    for (size_t k = 0; k < g.nested.size(); ++k)
      {   // calls made from the simulated signal handler, on the interrupted caller's thread
      const Item & it = sc.items[g.nested[k]];
      if (g.nested[k] == victim) { vseg = out_segs; vpos = static_cast<int>(g.items.size() + k); }
      s += std::string(",") + "{\"client\":" + std::to_string(ren[g.nest_host]) + ",\"nested\":true,\"op\":\"" + g_ops[it.op].name + "\",\"a\":\"" + hex(it.a) + "\",\"b\":\"" + hex(it.b) + "\"}";
      }
    s += "],\"script\":[";
    bool first = true;
    for (const Switch & w : g.script)
      {
      if (g.items.size() < 2 && w.to != SW_NEST) continue;
      if (w.to == SW_NEST && g.nested.empty()) continue;
      if ((w.from != SW_START && !ren.count(w.from)) || (w.to != SW_NEST && !ren.count(w.to))) continue;
      s += std::string(first ? "" : ",") + "{\"from\":" + std::to_string(w.from == SW_START ? 255 : ren[w.from]) + ",\"at_yield\":" +
           (w.idx == SW_AT_END ? std::string("-1") : std::to_string(w.idx)) + ",\"to\":" + std::to_string(w.to == SW_NEST ? 254 : ren[w.to]) + "}";
      first = false;
      }
    s += "]";
    }
  if (!first_seg) s += ",\"repeat\":" + std::to_string(pending_repeat) + "}";
  s += "],\"clock\":{\"policy\":" + std::to_string(sc.clock_policy) + ",\"seed\":" + std::to_string(sc.clock_seed) + "},\"victim\":{\"segment\":" + std::to_string(vseg) + ",\"call\":" + std::to_string(vpos) + "}";
  return s;
  }

static size_t count_calls(const Schedule & sc) { size_t n = 0; for (auto & g : sc.segs) n += g.items.size() + g.nested.size(); return n; }
static size_t count_switches(const Schedule & sc) { size_t n = 0; for (auto & g : sc.segs) for (auto & w : g.script) if ((g.items.size() > 1 || w.to == SW_NEST) && w.from != SW_START && w.idx != SW_AT_END) ++n; return n; }

// confirm, minimise and print one finding; returns true if it was stable
static bool report(uint64_t seed, const char * mode, Schedule sc, int victim, const Res & iso)
  {
  g_tests = 0;
  size_t calls0 = count_calls(sc), sw0 = count_switches(sc);
  if (!fails(sc, victim, iso, nullptr)) { printf("UNSTABLE {\"seed\":%" PRIu64 ",\"mode\":\"%s\",\"item\":%d}\n", seed, mode, victim); fflush(stdout); return false; }
  Schedule m = minimise(sc, victim, iso);
  Res seen{};
  if (!fails(m, victim, iso, &seen)) { printf("UNSTABLE {\"seed\":%" PRIu64 ",\"mode\":\"%s\",\"item\":%d}\n", seed, mode, victim); fflush(stdout); return false; }
  std::string s = "FOUND {\"seed\":" + std::to_string(seed) + ",\"mode\":\"" + mode + "\",\"build\":\"" HSIM_BUILD_CELL "\"," + schedule_json(m, victim) +
                  ",\"isolated\":" + res_json(iso) + ",\"observed\":" + res_json(seen) + ",\"original_calls\":" + std::to_string(calls0) +
                  ",\"original_switches\":" + std::to_string(sw0) + ",\"minimised_calls\":" + std::to_string(count_calls(m)) +
                  ",\"minimised_switches\":" + std::to_string(count_switches(m)) + ",\"minimise_tests\":" + std::to_string(g_tests) + "}";
  puts(s.c_str()); fflush(stdout);
  return true;
  }

static Schedule with_trace(Schedule sc, const std::vector<TraceRec> & tr)
  {
  for (auto & g : sc.segs) g.script.clear();
  for (const TraceRec & t : tr) if (t.seg < sc.segs.size()) sc.segs[t.seg].script.push_back(Switch{static_cast<uint8_t>(t.from), t.idx, static_cast<uint8_t>(t.to)});
  return sc;
  }

struct Stats
  {
  std::vector<uint64_t> per_op;
  uint64_t clients_hist[9] = {0, 0, 0, 0, 0, 0, 0, 0, 0};
  uint64_t sweep_runs = 0, crowd_runs = 0, hot_loop_runs = 0, plans_with_allocations = 0, fault_execs = 0;
  uint64_t long_runs = 0, very_long_runs = 0, churn_runs = 0, respawns = 0, max_plan_len = 0;
  uint64_t alias_same[AL_N] = {0}, alias_cross[AL_N] = {0};
  uint64_t calls = 0, runs = 0, nontrivial = 0, iso_checks = 0, disagreements = 0, signals_seen = 0, lost = 0, findings = 0, unstable = 0;
  uint64_t plain_conflict_pairs = 0, same_caller_pairs = 0, nest_directed_execs = 0;
  uint64_t access_records = 0, nonstack_writes = 0, conflict_pairs = 0, plans_with_conflicts = 0, directed_execs = 0;
  uint64_t fine_execs = 0, concurrent_segments = 0, concurrent_calls = 0, preemptions = 0, distinct_traces = 0;
  uint64_t digest = 0;
  std::unordered_set<uint64_t> adjacency, traces;
  std::string sample;
  };

static void account_plan(Stats & st, const Plan & p, const std::vector<Res> & ra, uint64_t seed, int execs)
  {
  size_t n = p.items.size();
  ++st.runs; st.clients_hist[p.clients <= 8 ? p.clients : 0]++;      // slot 0 = more than 8 callers (crowd runs)
  if (p.clients > 8) ++st.crowd_runs;
  if (n >= 50000) ++st.hot_loop_runs;
  if (p.sweep) ++st.sweep_runs;
  if (n >= 150) ++st.long_runs;
  if (n >= 3000) ++st.very_long_runs;
  if (!p.respawn.empty()) { ++st.churn_runs; st.respawns += p.respawn.size(); }
  if (n > st.max_plan_len) st.max_plan_len = n;
  if (p.nontrivial) ++st.nontrivial;
  uint64_t d = mix64(seed, p.hash);
  for (size_t i = 0; i < n; ++i)
    {
    const Item & it = p.items[i];
    st.per_op[it.op] += static_cast<uint64_t>(execs);
    d = mix64(d, ra[i].status); d = mix64(d, ra[i].bits);
    if (ra[i].status != 0 && ra[i].status != 255) ++st.signals_seen;
    if (ra[i].status == 255) ++st.lost;
    if (it.alias_of >= 0)
      {
      bool cross = p.items[it.alias_of].client != it.client;
      (cross ? st.alias_cross : st.alias_same)[it.alias]++;
      st.adjacency.insert(mix64(mix64(it.op, p.items[it.alias_of].op), (static_cast<uint64_t>(it.alias) << 1) | (cross ? 1u : 0u)));
      }
    }
  st.calls += static_cast<uint64_t>(execs) * n;
  st.digest += d;                                  // additive: independent of how seeds are split over workers
  if (st.sample.empty() && p.nontrivial && n <= 12)
    {
    st.sample = "{\"seed\":" + std::to_string(seed) + ",\"clients\":" + std::to_string(p.clients) + ",\"schedule\":[";
    for (size_t i = 0; i < n; ++i)
      {
      const Item & it = p.items[i];
      if (i) st.sample += ",";
      st.sample += "\"c" + std::to_string(it.client) + ":" + g_ops[it.op].name + "(" + hex(it.a) + (g_ops[it.op].kb != K_NONE ? "," + hex(it.b) : "") + ")" +
                   (it.alias_of >= 0 ? std::string(" ~") + alias_name[it.alias] + "#" + std::to_string(it.alias_of) : "") + " -> " +
                   (ra[i].status ? "signal " + std::to_string(ra[i].status) : hex(ra[i].bits)) + "\"";
      }
    st.sample += "]}";
    }
  }

static void print_stats(const Stats & st, const char * mode, uint64_t seed0)
  {
  std::string s = "STATS {\"build\":\"" HSIM_BUILD_CELL "\",\"mode\":\"" + std::string(mode) + "\",\"instrumented\":" + std::to_string(HSIM_INSTRUMENTED) +
                  ",\"seed0\":" + std::to_string(seed0) + ",\"runs\":" + std::to_string(st.runs) +
                  ",\"calls\":" + std::to_string(st.calls) + ",\"forks\":" + std::to_string(g_forks) + ",\"nontrivial_runs\":" + std::to_string(st.nontrivial) +
                  ",\"isolation_checks\":" + std::to_string(st.iso_checks) + ",\"disagreements\":" + std::to_string(st.disagreements) +
                  ",\"signals_caught\":" + std::to_string(st.signals_seen) + ",\"items_lost\":" + std::to_string(st.lost) + ",\"hung_children\":" + std::to_string(g_hung) + ",\"children_refused_threads\":" + std::to_string(g_resource_failures) +
                  ",\"findings\":" + std::to_string(st.findings) + ",\"unstable\":" + std::to_string(st.unstable) + ",\"digest\":\"" + hex(st.digest) +
                  "\",\"fine_executions\":" + std::to_string(st.fine_execs) + ",\"concurrent_segments\":" + std::to_string(st.concurrent_segments) +
                  ",\"concurrent_calls\":" + std::to_string(st.concurrent_calls) + ",\"yield_points\":" + std::to_string(g_yields_total) +
                  ",\"preemptions\":" + std::to_string(st.preemptions) + ",\"baton_handoffs\":" + std::to_string(g_switches_total) +
                  ",\"distinct_decision_traces\":" + std::to_string(st.traces.size()) +
                  ",\"access_records\":" + std::to_string(st.access_records) + ",\"nonstack_writes_observed\":" + std::to_string(st.nonstack_writes) +
                  ",\"conflicting_call_pairs\":" + std::to_string(st.conflict_pairs) + ",\"conflicting_call_pairs_plain_access\":" + std::to_string(st.plain_conflict_pairs) + ",\"plans_with_conflicts\":" + std::to_string(st.plans_with_conflicts) +
                  ",\"directed_executions\":" + std::to_string(st.directed_execs) + ",\"nested_calls_delivered\":" + std::to_string(g_nests_total) + ",\"nest_directed_executions\":" + std::to_string(st.nest_directed_execs) +
                  ",\"same_caller_conflict_pairs\":" + std::to_string(st.same_caller_pairs) + ",\"handler_self_deadlocks\":" + std::to_string(g_nest_deadlocks) +
                  ",\"long_runs\":" + std::to_string(st.long_runs) + ",\"very_long_runs\":" + std::to_string(st.very_long_runs) + ",\"max_plan_len\":" + std::to_string(st.max_plan_len) +
                  ",\"lifecycle_probes\":" + std::to_string(g_lc_probes) + ",\"early_calls\":" + std::to_string(g_lc_early) + ",\"late_calls\":" + std::to_string(g_lc_late) +
                  ",\"clock_queries_inside_library_calls\":" + std::to_string(g_clock_queries_total) + ",\"simulated_ns\":" + std::to_string(g_sim_ns_total) +
                  ",\"allocations_inside_library_calls\":" + std::to_string(g_allocs_total) + ",\"allocation_failures_injected\":" + std::to_string(g_alloc_failures_total) +
                  ",\"plans_with_allocations\":" + std::to_string(st.plans_with_allocations) + ",\"fault_injecting_executions\":" + std::to_string(st.fault_execs) +
                  ",\"alias_sweep_runs\":" + std::to_string(st.sweep_runs) + ",\"hot_loop_runs\":" + std::to_string(st.hot_loop_runs) + ",\"crowd_runs\":" + std::to_string(st.crowd_runs) + ",\"churn_runs\":" + std::to_string(st.churn_runs) + ",\"planned_respawns\":" + std::to_string(st.respawns) +
                  ",\"threads_started\":" + std::to_string(g_threads_total) + ",\"max_threads_in_one_execution\":" + std::to_string(g_threads_max) +
                  ",\"clients_hist\":[" + std::to_string(st.clients_hist[1]) + "," + std::to_string(st.clients_hist[2]) + "," + std::to_string(st.clients_hist[3]) + "," + std::to_string(st.clients_hist[4]) + "," +
                  std::to_string(st.clients_hist[5]) + "," + std::to_string(st.clients_hist[6]) + "," + std::to_string(st.clients_hist[7]) + "," + std::to_string(st.clients_hist[8]) + "]";
  s += ",\"alias_same_client\":{";
  for (int a = 1; a < AL_N; ++a) s += std::string(a > 1 ? "," : "") + "\"" + alias_name[a] + "\":" + std::to_string(st.alias_same[a]);
  s += "},\"alias_cross_client\":{";
  for (int a = 1; a < AL_N; ++a) s += std::string(a > 1 ? "," : "") + "\"" + alias_name[a] + "\":" + std::to_string(st.alias_cross[a]);
  s += "},\"per_op\":{";
  for (size_t i = 0; i < g_ops.size(); ++i) s += std::string(i ? "," : "") + "\"" + g_ops[i].name + "\":" + std::to_string(st.per_op[i]);
  s += "},\"adjacency_keys\":[";
  { bool first = true; for (uint64_t a : st.adjacency) { s += std::string(first ? "" : ",") + "\"" + hex(a) + "\""; first = false; } }
  s += "],\"sample\":" + (st.sample.empty() ? std::string("null") : st.sample) + "}";
  puts(s.c_str());
  }

// whole-call mode: plan order vs reverse order vs isolation
static int do_scan_serial(uint64_t seed0, uint64_t count, const char * hashfile, uint64_t max_findings)
  {
  Stats st; st.per_op.assign(g_ops.size(), 0);
  FILE * hf = hashfile ? fopen(hashfile, "wb") : nullptr;
  for (uint64_t k = 0; k < count; ++k)
    {
    uint64_t seed = seed0 + k;
    Plan p = gen_plan(seed, 1);
    size_t n = p.items.size();
    std::vector<int> fwd(n), rev(n);
    for (size_t i = 0; i < n; ++i) { fwd[i] = static_cast<int>(i); rev[i] = static_cast<int>(n - 1 - i); }
    Outcome oa = run_schedule(serial_schedule(p.items, fwd, p.clients, p.respawn), true, 0);
    std::vector<Res> ra = oa.res;
    Schedule srev = serial_schedule(p.items, rev, p.clients, p.respawn); srev.clock_policy = 1; srev.clock_seed = seed;
    std::vector<Res> rb = run_schedule(srev, true, 0).res;
    account_plan(st, p, ra, seed, 2);
    if (oa.complete && oa.allocs > 0)
      {   // the library allocates: fail one request of one call per extra execution; a call may die, it must not return other bits
      ++st.plans_with_allocations;
      for (int v = 0; v < 4 && st.findings < max_findings; ++v)
        {
        Rng fr(mix64(seed, 0xa110c + static_cast<uint64_t>(v)));
        Schedule fs = serial_schedule(p.items, fwd, p.clients, p.respawn);
        int target = static_cast<int>(fr.below(n));
        fs.items[target].fail_alloc = 1 + static_cast<int32_t>(fr.below(3));
        Outcome of = run_schedule(fs, true, 0);
        ++st.fault_execs;
        if (!of.complete) continue;
        for (size_t i = 0; i < n; ++i)
          {
          if (ra[i].status != 0 || of.res[i].status != 0 || same(ra[i], of.res[i])) continue;     // died, or agrees
          Res iso = isolated(p.items[i]); ++st.iso_checks;
          if (iso.status != 0 || same(of.res[i], iso)) continue;
          ++st.disagreements;
          Schedule upto = fs; upto.segs.resize(i + 1);
          if (report(seed, "fault", upto, static_cast<int>(i), iso)) ++st.findings; else ++st.unstable;
          break;
          }
        }
      }
    if (p.nontrivial && hf) fwrite(&p.hash, 8, 1, hf);
    if (seed % 25 == 0 && st.findings < max_findings)
      {   // life-cycle probe: a few of this plan's calls before the library's initialisers, in main, and after its destructors
      Rng lr(mix64(seed, 0x11fec));
      Schedule ls; ls.clients = 1;
      size_t ne = 1 + lr.below(3), nm = 3 + lr.below(6), nl = 1 + lr.below(2);
      std::vector<int> early;
      auto add = [&](int src, char ph) { Item it = p.items[src]; it.client = 0; it.fail_alloc = 0; ls.items.push_back(it); Segment g; g.den = 0; g.budget = 0; g.phase = ph; g.items = {static_cast<int>(ls.items.size() - 1)}; ls.segs.push_back(g); };
      for (size_t q = 0; q < ne; ++q) { int src = static_cast<int>(lr.below(n)); early.push_back(src); add(src, 'e'); }
      for (size_t q = 0; q < nm; ++q) add(lr.chance(50) ? early[lr.below(early.size())] : static_cast<int>(lr.below(n)), 'm');
      for (size_t q = 0; q < nl; ++q) add(lr.chance(60) ? early[lr.below(early.size())] : static_cast<int>(lr.below(n)), 'l');
      Outcome lo = run_lifecycle(ls);
      if (lo.complete)
        for (size_t q = 0; q < ls.items.size(); ++q)
          {
          if (lo.res[q].status == 255) continue;
          Res iso = isolated(ls.items[q]); ++st.iso_checks;
          if (iso.status == 255 || same(lo.res[q], iso)) continue;
          ++st.disagreements;
          if (report(seed, "lifecycle", ls, static_cast<int>(q), iso)) ++st.findings; else ++st.unstable;
          break;
          }
      }
    // oracle 1: the two histories must agree item by item; any disagreement is confirmed against isolation
    std::vector<int> suspects;
    for (size_t i = 0; i < n; ++i)
      {
      if (ra[i].status == 255 || rb[i].status == 255) continue;
      if (!same(ra[i], rb[i])) { ++st.disagreements; suspects.push_back(static_cast<int>(i)); }
      }
    // oracle 2: one seeded item per run is compared with its isolated execution directly
    {
    Rng pick(seed ^ 0xabcdef12345ull);
    int i = static_cast<int>(pick.below(n));
    if (std::find(suspects.begin(), suspects.end(), i) == suspects.end()) suspects.push_back(i);
    }
    for (int i : suspects)
      {
      Res iso = isolated(p.items[i]); ++st.iso_checks;
      if (iso.status == 255) continue;
      std::vector<int> order; bool bad = false;
      if (ra[i].status != 255 && !same(ra[i], iso)) { for (int j = 0; j <= i; ++j) order.push_back(j); bad = true; }
      else if (rb[i].status != 255 && !same(rb[i], iso)) { for (int j = static_cast<int>(n) - 1; j >= i; --j) order.push_back(j); bad = true; }
      if (bad)
        {
        Schedule fsch = serial_schedule(p.items, order, p.clients, p.respawn);
        if (order.size() > 1 && order[0] > order[1]) { fsch.clock_policy = 1; fsch.clock_seed = seed; }
        else if (order.size() == 1 && static_cast<size_t>(i) == n - 1 && n > 1) { fsch.clock_policy = 1; fsch.clock_seed = seed; }
        if (report(seed, "serial", fsch, i, iso)) ++st.findings; else ++st.unstable;
        break;
        }
      }
    if (st.findings >= max_findings || g_hung >= 3) break;
    }
  if (hf) fclose(hf);
  print_stats(st, "serial", seed0);
  return 0;
  }

// calls i < j of different callers conflict when one writes a non-stack address the other reads or writes
struct Conflict { int i, j; std::vector<uint64_t> addrs; };
static std::vector<Conflict> find_conflicts(const Plan & p, const std::vector<AccessRec> & acc, uint64_t & writes_seen, uint64_t & plain_pairs, std::vector<Conflict> & same_caller)
  {
  struct Touch { int item; bool wrote; bool atomic; };
  std::map<uint64_t, std::vector<Touch>> by_addr;
  writes_seen = 0; plain_pairs = 0;
  for (const AccessRec & a : acc) { by_addr[a.addr].push_back(Touch{static_cast<int>(a.item), (a.is_write & 1) != 0, (a.is_write & 2) != 0}); if (a.is_write & 1) ++writes_seen; }
  // pairs whose conflict involves a plain (non-atomic) access come first: an atomic counter bumped by every caller is a
  // conflict too, but rarely the interesting one
  std::map<std::pair<int, int>, std::vector<uint64_t>> plain, atomic_only, own;      // own: two different questions of ONE caller (re-entrancy targets, DESIGN 9.8)
  for (auto & kv : by_addr)
    {
    auto & v = kv.second;
    bool any_write = false; for (auto & e : v) any_write = any_write || e.wrote;
    if (!any_write) continue;
    // touches are in execution order; pair each with the next few touches by OTHER callers (nearest in time = sharing
    // at that moment).  This keeps a hot address (a resident caller's slot touched by hundreds of its own calls)
    // in play without enumerating a quadratic number of pairs.
    for (size_t x = 0; x < v.size(); ++x)
      {
      int taken = 0, taken_own = 0;
      for (size_t y = x + 1; y < v.size() && y < x + 40 && taken < 4; ++y)
        {
        if (!(v[x].wrote || v[y].wrote)) continue;
        int i = std::min(v[x].item, v[y].item), j = std::max(v[x].item, v[y].item);
        if (i == j || i < 0 || j >= static_cast<int>(p.items.size())) continue;
        if (p.items[i].client == p.items[j].client)
          {
          const Item & xi = p.items[i]; const Item & xj = p.items[j];
          if (taken_own < 2 && (xi.op != xj.op || xi.a != xj.a || xi.b != xj.b) && (own.size() < 2000 || own.count({i, j})))
            { ++taken_own; auto & ad = own[{i, j}]; if (ad.size() < 8) ad.push_back(kv.first); }
          continue;
          }
        ++taken;
        auto & tab = (v[x].atomic && v[y].atomic) ? atomic_only : plain;
        if (tab.size() > 6000 && !tab.count({i, j})) continue;
        auto & ad = tab[{i, j}];
        if (ad.size() < 8) ad.push_back(kv.first);
        }
      }
    }
  std::vector<Conflict> out;
  same_caller.clear();
  // a pair is worth running together only if both calls would still be made by the threads that made them in the
  // reference execution: no restart of either caller between the two positions
  auto same_threads = [&](const std::pair<int, int> & k)
    {
    for (auto & e : p.respawn)
      // the earlier caller's thread must still be the same one when the later call runs (in-place variant needs only that)
      if (static_cast<int>(e.first) > k.first && static_cast<int>(e.first) <= k.second && e.second == p.items[k.first].client) return false;
    return true;
    };
  auto differ = [&](const std::pair<int, int> & k)
    { const Item & x = p.items[k.first]; const Item & y = p.items[k.second]; return same_threads(k) && (x.op != y.op || x.a != y.a || x.b != y.b); };
  // among plain conflicts, pairs that ask different questions first: two identical calls racing write identical data
  for (auto & kv : plain) if (differ(kv.first)) out.push_back(Conflict{kv.first.first, kv.first.second, kv.second});
  size_t differing = out.size();
  for (auto & kv : plain) if (!differ(kv.first)) out.push_back(Conflict{kv.first.first, kv.first.second, kv.second});
  plain_pairs = differing ? differing : out.size();
  for (auto & kv : atomic_only) if (!plain.count(kv.first)) out.push_back(Conflict{kv.first.first, kv.first.second, kv.second});
  for (auto & kv : own) if (same_threads(kv.first)) same_caller.push_back(Conflict{kv.first.first, kv.first.second, kv.second});
  return out;
  }

// plan order, one call at a time, except that the two conflicting calls are in flight together (the later one is
// pulled forward) and the scheduler prefers to preempt at the addresses they conflict on
static Schedule directed_schedule(const Plan & p, const Conflict & c, uint64_t sseed)
  {
  Rng r(sseed ^ 0x6a09e667f3bcc909ull);
  Schedule s; s.clients = p.clients; s.items = p.items;
  for (size_t k = 0; k < p.items.size(); ++k)
    {
    if (static_cast<int>(k) == c.j) continue;
    Segment g; g.den = 16; g.budget = 0; g.items = {static_cast<int>(k)};
    if (static_cast<int>(k) == c.i)
      {
      g.items.push_back(c.j); g.focus = c.addrs;
      if (r.chance(60)) { g.den = 1; g.budget = 1 + static_cast<int>(r.below(5)); }      // one preemption, at the n-th conflicting access
      else { g.den = 8; g.budget = 2 + static_cast<int>(r.below(5)); }
      }
    for (auto & e : p.respawn) if (e.first == k || (static_cast<int>(k) == c.i && static_cast<int>(e.first) == c.j)) g.respawn.push_back(e.second);
    s.segs.push_back(g);
    if (static_cast<int>(k) == c.i)
      {   // echo probes: both calls again, one at a time, right after they ran together - whatever the pair left behind in
          // shared state is most likely to be seen by the same questions asked again (same oracle: the isolated bits)
      for (int src : {c.i, c.j, c.i})
        {
        s.items.push_back(p.items[src]);
        if (src == c.i && s.items.size() == p.items.size() + 3) s.items.back().client = p.items[c.j].client;   // third probe: i's question from j's thread
        Segment e; e.den = 0; e.budget = 0; e.items = {static_cast<int>(s.items.size() - 1)};
        s.segs.push_back(e);
        }
      }
    }
  return s;
  }

// the whole plan exactly as in the reference execution (so every order-dependent assignment - pool slots handed out at
// first use, table positions - is the same), then the two conflicting calls once more, this time in flight together,
// then the echo probes
static Schedule tail_schedule(const Plan & p, const Conflict & c, uint64_t sseed)
  {
  Rng r(sseed ^ 0xbb67ae8584caa73bull);
  std::vector<int> fwd(p.items.size());
  for (size_t i = 0; i < fwd.size(); ++i) fwd[i] = static_cast<int>(i);
  Schedule s = serial_schedule(p.items, fwd, p.clients, p.respawn);
  Segment g; g.focus = c.addrs;
  if (r.chance(60)) { g.den = 1; g.budget = 1 + static_cast<int>(r.below(4)); } else { g.den = 8; g.budget = 2 + static_cast<int>(r.below(5)); }
  for (int src : {c.i, c.j}) { s.items.push_back(p.items[src]); g.items.push_back(static_cast<int>(s.items.size() - 1)); }
  s.segs.push_back(g);
  for (int k = 0; k < 3; ++k)
    {
    int src = (k == 1) ? c.j : c.i;
    s.items.push_back(p.items[src]);
    if (k == 2) s.items.back().client = p.items[c.j].client;
    Segment e; e.den = 0; e.budget = 0; e.items = {static_cast<int>(s.items.size() - 1)};
    s.segs.push_back(e);
    }
  return s;
  }

// the plan unchanged, except that the earlier call is asked once more, by its own thread, at the moment the later call
// runs - together with it.  Needed when the later caller is short-lived: it exists only around its own position.
static Schedule inplace_schedule(const Plan & p, const Conflict & c, uint64_t sseed)
  {
  Rng r(sseed ^ 0x3c6ef372fe94f82bull);
  Schedule s; s.clients = p.clients; s.items = p.items;
  for (size_t k = 0; k < p.items.size(); ++k)
    {
    Segment g; g.den = 16; g.budget = 0; g.items = {static_cast<int>(k)};
    for (auto & e : p.respawn) if (e.first == k) g.respawn.push_back(e.second);
    if (static_cast<int>(k) == c.j)
      {
      s.items.push_back(p.items[c.i]);                       // the earlier question again, by the earlier caller's thread
      g.items.push_back(static_cast<int>(s.items.size() - 1)); g.focus = c.addrs;
      if (r.chance(60)) { g.den = 1; g.budget = 1 + static_cast<int>(r.below(4)); } else { g.den = 8; g.budget = 2 + static_cast<int>(r.below(5)); }
      }
    s.segs.push_back(g);
    if (static_cast<int>(k) == c.j)
      for (int q = 0; q < 3; ++q)
        {   // echo probes
        int src = (q == 1) ? c.j : c.i;
        s.items.push_back(p.items[src]);
        if (q == 2) s.items.back().client = p.items[c.j].client;
        Segment e; e.den = 0; e.budget = 0; e.items = {static_cast<int>(s.items.size() - 1)};
        s.segs.push_back(e);
        }
    }
  return s;
  }

// the plan unchanged, except that the later call of a conflicting pair is interrupted - at the addresses the two conflict
// on - by a simulated signal whose handler asks the earlier question on the interrupted thread; then echo probes
static Schedule nest_schedule(const Plan & p, const Conflict & c, uint64_t sseed)
  {
  Rng r(sseed ^ 0xa54ff53a5f1d36f1ull);
  Schedule s; s.clients = p.clients; s.items = p.items;
  bool swap = r.chance(35);                                  // sometimes the earlier call hosts and the later question interrupts
  int host = swap ? c.i : c.j, inner = swap ? c.j : c.i;
  for (size_t k = 0; k < p.items.size(); ++k)
    {
    Segment g; g.den = 16; g.budget = 0; g.items = {static_cast<int>(k)};
    for (auto & e : p.respawn) if (e.first == k) g.respawn.push_back(e.second);
    if (static_cast<int>(k) == host)
      {
      s.items.push_back(p.items[inner]); s.items.back().client = p.items[host].client; s.items.back().fail_alloc = 0;
      g.nested.push_back(static_cast<int>(s.items.size() - 1)); g.nest_host = p.items[host].client; g.focus = c.addrs;
      g.nest_den = r.chance(50) ? 0 : 8;                     // 0: only at the conflicting addresses
      }
    s.segs.push_back(g);
    if (static_cast<int>(k) == host)
      for (int q = 0; q < 2; ++q)
        {   // echo probes on the interrupted thread: its own question, then the handler's
        s.items.push_back(p.items[q == 0 ? host : inner]); s.items.back().client = p.items[host].client; s.items.back().fail_alloc = 0;
        Segment e; e.den = 0; e.budget = 0; e.items = {static_cast<int>(s.items.size() - 1)};
        s.segs.push_back(e);
        }
    }
  return s;
  }

// fine mode: whole-call reference execution vs executions with concurrent segments and seeded preemption
static int do_scan_fine(uint64_t seed0, uint64_t count, const char * hashfile, uint64_t max_findings)
  {
  Stats st; st.per_op.assign(g_ops.size(), 0);
  FILE * hf = hashfile ? fopen(hashfile, "wb") : nullptr;
  const int variants = 3;
  for (uint64_t k = 0; k < count; ++k)
    {
    uint64_t seed = seed0 + k;
    Plan p = gen_plan(seed, 2);
    size_t n = p.items.size();
    std::vector<int> fwd(n);
    for (size_t i = 0; i < n; ++i) fwd[i] = static_cast<int>(i);
    Schedule ref = serial_schedule(p.items, fwd, p.clients, p.respawn); ref.log_access = true;
    Outcome oref = run_schedule(ref, true, 0);
    std::vector<Res> ra = oref.res;
    uint64_t writes_seen = 0, plain_pairs = 0;
    std::vector<Conflict> same_caller;
    std::vector<Conflict> conflicts = find_conflicts(p, oref.access, writes_seen, plain_pairs, same_caller);
    st.plain_conflict_pairs += plain_pairs;
    if (getenv("HSIM_DEBUG") && plain_pairs)
      {
      fprintf(stderr, "seed %" PRIu64 ": n=%zu clients=%d respawns=%zu conflicts=%zu plain_differing=%" PRIu64 "\n", seed, n, p.clients, p.respawn.size(), conflicts.size(), plain_pairs);
      for (size_t q = 0; q < conflicts.size() && q < 6; ++q)
        {
        const Conflict & c = conflicts[q];
        fprintf(stderr, "  pair (%d c%d %s %s) (%d c%d %s %s) addrs=%zu  res_i=%s res_j=%s\n", c.i, p.items[c.i].client, g_ops[p.items[c.i].op].name.c_str(), hex(p.items[c.i].a).c_str(),
                c.j, p.items[c.j].client, g_ops[p.items[c.j].op].name.c_str(), hex(p.items[c.j].a).c_str(), c.addrs.size(), hex(ra[c.i].bits).c_str(), hex(ra[c.j].bits).c_str());
        }
      }
    st.access_records += oref.access.size(); st.nonstack_writes += writes_seen; st.conflict_pairs += conflicts.size();
    if (!conflicts.empty()) ++st.plans_with_conflicts;
    int directed = conflicts.empty() ? 0 : static_cast<int>(std::min<size_t>(plain_pairs ? 9 : 2, conflicts.size()));
    if (getenv("HSIM_DIRECTED") && plain_pairs) directed = atoi(getenv("HSIM_DIRECTED"));
    int nestn = (conflicts.empty() && same_caller.empty()) ? 0 : 3;
    if (getenv("HSIM_NO_REENTRANCY")) nestn = 0;
    st.same_caller_pairs += same_caller.size();
    account_plan(st, p, ra, seed, 1 + variants + directed + nestn);
    bool found = false;
    for (int v = 0; v < variants + directed + nestn && !found; ++v)
      {
      uint64_t sseed = mix64(seed, 0x1000 + static_cast<uint64_t>(v));
      Schedule sc;
      if (v < variants) sc = fine_schedule(p, sseed);
      else if (v >= variants + directed)
        {   // re-entrancy aimed at state two calls really share: one caller's own two questions first, else a cross-caller pair
        Rng pick(sseed);
        bool own = !same_caller.empty() && (conflicts.empty() || (v - variants - directed) != 1);
        const std::vector<Conflict> & pool = own ? same_caller : conflicts;
        size_t lim = own ? pool.size() : (plain_pairs ? static_cast<size_t>(plain_pairs) : pool.size());
        sc = nest_schedule(p, pool[pick.below(lim)], sseed); ++st.directed_execs; ++st.nest_directed_execs;
        }
      else
        {   // plain conflicts are listed first; take from them while there are any
        Rng pick(sseed);
        size_t pool = plain_pairs ? static_cast<size_t>(plain_pairs) : conflicts.size();
        const Conflict & cf = conflicts[pick.below(pool)];
        sc = (v % 3 == 1) ? tail_schedule(p, cf, sseed) : (v % 3 == 2) ? inplace_schedule(p, cf, sseed) : directed_schedule(p, cf, sseed); ++st.directed_execs;
        }
      Outcome oc = run_schedule(sc, false, sseed);
      ++st.fine_execs;
      if (getenv("HSIM_DEBUG") && v >= variants && oc.complete)
        {
        fprintf(stderr, "  directed v=%d: trace", v);
        for (auto & t : oc.trace) if (t.from != SW_START) fprintf(stderr, " [seg%u c%u@%d->c%u]", t.seg, t.from, static_cast<int>(t.idx), t.to);
        fprintf(stderr, " echoes:");
        for (size_t q = n; q < oc.res.size(); ++q) fprintf(stderr, " %s(%s)=%s", g_ops[sc.items[q].op].name.c_str(), hex(sc.items[q].a).c_str(), hex(oc.res[q].bits).c_str());
        fprintf(stderr, "\n");
        }
      if (!oc.complete) continue;
      uint64_t th = mix64(p.hash, 0x77);
      for (const TraceRec & t : oc.trace) { th = mix64(th, (static_cast<uint64_t>(t.seg) << 40) ^ (static_cast<uint64_t>(t.from) << 32) ^ t.idx); th = mix64(th, t.to); if (t.to == SW_NEST) continue; if (t.from != SW_START && t.idx != SW_AT_END) ++st.preemptions; }
      for (const Segment & g : sc.segs) if (g.items.size() > 1) { ++st.concurrent_segments; st.concurrent_calls += g.items.size(); th = mix64(th, g.items.size() * 131u + static_cast<uint64_t>(g.items[0])); }
      { uint64_t dd = th; for (size_t i = 0; i < oc.res.size(); ++i) { dd = mix64(dd, oc.res[i].status); dd = mix64(dd, oc.res[i].bits); } st.digest += dd; }     // nested calls and echo probes included
      bool has_conc = false;
      for (const Segment & g : sc.segs) if (g.items.size() > 1 || !g.nested.empty()) has_conc = true;
      if (has_conc) { st.traces.insert(th); if (hf) fwrite(&th, 8, 1, hf); }
      for (size_t i = 0; i < oc.res.size() && !found; ++i)
        {
        // items beyond the plan are echo probes: copies of a plan item, so their reference is that item's reference result
        size_t refi = i;
        if (i >= n) { refi = n; for (size_t q = 0; q < n; ++q) if (p.items[q].op == sc.items[i].op && p.items[q].a == sc.items[i].a && p.items[q].b == sc.items[i].b) { refi = q; break; } if (refi == n) continue; }
        if (ra[refi].status == 255 || oc.res[i].status == 255 || same(ra[refi], oc.res[i])) continue;
        ++st.disagreements;
        Res iso = isolated(sc.items[i]); ++st.iso_checks;
        if (iso.status == 255) continue;
        if (i >= n)
          {
          if (!same(oc.res[i], iso)) { if (report(seed, "fine", with_trace(sc, oc.trace), static_cast<int>(i), iso)) ++st.findings; else ++st.unstable; found = true; }
          continue;
          }
        if (!same(oc.res[i], iso))
          { if (report(seed, "fine", with_trace(sc, oc.trace), static_cast<int>(i), iso)) ++st.findings; else ++st.unstable; found = true; }
        else if (!same(ra[i], iso))
          {
          std::vector<int> order; for (int j = 0; j <= static_cast<int>(i); ++j) order.push_back(j);
          if (report(seed, "serial", serial_schedule(p.items, order, p.clients, p.respawn), static_cast<int>(i), iso)) ++st.findings; else ++st.unstable; found = true;
          }
        }
      }
    if (st.findings >= max_findings || g_hung >= 3) break;
    }
  if (hf) fclose(hf);
  print_stats(st, "fine", seed0);
  return 0;
  }

// stdin:  clients N / seg / call <client> <op> <a hex> <b hex> / sw <from> <at_yield|-1> <to> / victim <seg> <call>
static int do_exec()
  {
  char line[512]; Schedule sc; sc.clients = 1; int vseg = -1, vcall = -1; std::vector<uint8_t> pending_respawn; std::vector<int> comp_to_exp; char pending_phase = 'm';
  while (fgets(line, sizeof line, stdin))
    {
    char name[256]; unsigned c, f, t; long long idx; unsigned long long a, b; int x, y;
    if (sscanf(line, "clients %d", &sc.clients) == 1) continue;
    { int cp; unsigned long long cs; if (sscanf(line, "clock %d %llu", &cp, &cs) == 2) { sc.clock_policy = cp; sc.clock_seed = cs; continue; } }
    if (strncmp(line, "phase ", 6) == 0) { pending_phase = line[6] == 'e' ? 'e' : line[6] == 'l' ? 'l' : 'm'; continue; }
    if (strncmp(line, "seg", 3) == 0) { comp_to_exp.push_back(static_cast<int>(sc.segs.size())); Segment g; g.phase = pending_phase; pending_phase = 'm'; g.den = 0; g.budget = 0; g.respawn = pending_respawn; pending_respawn.clear(); sc.segs.push_back(g); continue; }
    if (sscanf(line, "respawn %u", &c) == 1) { pending_respawn.push_back(static_cast<uint8_t>(c)); continue; }
    int fa = 0;
    if (sscanf(line, "call %u %255s %llx %llx %d", &c, name, &a, &b, &fa) >= 4)
      {
      int oi = op_index(name);
      if (oi < 0) { fprintf(stderr, "hsim: unknown operation %s\n", name); return 2; }
      if (sc.segs.empty()) { fprintf(stderr, "hsim: call before seg\n"); return 2; }
      Item it{}; it.client = static_cast<uint8_t>(c); it.op = static_cast<uint16_t>(oi); it.a = a; it.b = b; it.alias_of = -1; it.fail_alloc = fa;
      sc.items.push_back(it); sc.segs.back().items.push_back(static_cast<int>(sc.items.size() - 1));
      continue;
      }
    if (sscanf(line, "nest %u %255s %llx %llx", &c, name, &a, &b) == 4)
      {
      int oi = op_index(name);
      if (oi < 0 || sc.segs.empty()) { fprintf(stderr, "hsim: bad nested call\n"); return 2; }
      Item it{}; it.client = static_cast<uint8_t>(c); it.op = static_cast<uint16_t>(oi); it.a = a; it.b = b; it.alias_of = -1;
      sc.items.push_back(it); sc.segs.back().nested.push_back(static_cast<int>(sc.items.size() - 1)); sc.segs.back().nest_host = static_cast<int>(c);
      continue;
      }
    if (sscanf(line, "sw %u %lld %u", &f, &idx, &t) == 3)
      {
      if (sc.segs.empty()) return 2;
      sc.segs.back().script.push_back(Switch{static_cast<uint8_t>(f), idx < 0 ? SW_AT_END : static_cast<uint32_t>(idx), static_cast<uint8_t>(t)});
      continue;
      }
    if (sscanf(line, "rep %llu", &a) == 1)
      {
      if (sc.segs.empty() || sc.segs.back().items.size() != 1) continue;
      for (unsigned long long q = 1; q < a; ++q)
        { Item it = sc.items[sc.segs.back().items[0]]; sc.items.push_back(it); Segment g; g.den = 0; g.budget = 0; g.items = {static_cast<int>(sc.items.size() - 1)}; sc.segs.push_back(g); }
      continue;
      }
    if (sscanf(line, "victim %d %d", &x, &y) == 2) { vseg = (x >= 0 && x < static_cast<int>(comp_to_exp.size())) ? comp_to_exp[x] : -1; vcall = y; }
    }
  if (sc.items.empty() || sc.clients < 1 || sc.clients > MAX_CLIENTS) { fprintf(stderr, "hsim: empty or malformed schedule\n"); return 2; }
  for (auto & it : sc.items) if (it.client >= sc.clients) { fprintf(stderr, "hsim: client out of range\n"); return 2; }
  for (auto & g : sc.segs)
    for (size_t i = 0; i < g.items.size(); ++i) for (size_t j = i + 1; j < g.items.size(); ++j)
      if (sc.items[g.items[i]].client == sc.items[g.items[j]].client) { fprintf(stderr, "hsim: one client twice in a segment\n"); return 2; }
  int victim = -1;
  if (vseg >= 0 && vseg < static_cast<int>(sc.segs.size()) && vcall >= 0 && vcall < static_cast<int>(sc.segs[vseg].items.size())) victim = sc.segs[vseg].items[vcall];
  else if (vseg >= 0 && vseg < static_cast<int>(sc.segs.size()) && vcall >= static_cast<int>(sc.segs[vseg].items.size()) && vcall < static_cast<int>(sc.segs[vseg].items.size() + sc.segs[vseg].nested.size()))
    victim = sc.segs[vseg].nested[static_cast<size_t>(vcall) - sc.segs[vseg].items.size()];
  if (victim < 0) victim = static_cast<int>(sc.items.size()) - 1;
  Outcome o = is_lifecycle(sc) ? run_lifecycle(sc) : run_schedule(sc, true, 0);
  bool faulted = false;
  for (auto & it : sc.items) if (it.fail_alloc > 0) faulted = true;
  Item clean = sc.items[victim]; clean.fail_alloc = 0;
  Res iso = isolated(clean);
  const Res & got = o.res[victim];
  std::string s = "EXEC {\"build\":\"" HSIM_BUILD_CELL "\",\"instrumented\":" + std::to_string(HSIM_INSTRUMENTED) + ",\"complete\":" + (o.complete ? "true" : "false") +
                  ",\"observed\":" + res_json(got) + ",\"isolated\":" + res_json(iso) +
                  ",\"differs\":" + ((o.complete && got.status != 255 && iso.status != 255 && !same(got, iso) && !(faulted && got.status != 0)) ? "true" : "false") + ",\"all\":[";
  for (size_t i = 0; i < o.res.size(); ++i) s += std::string(i ? "," : "") + res_json(o.res[i]);
  s += "]}";
  puts(s.c_str());
  return 0;
  }

static int do_merge(int argc, char ** argv)
  {
  std::vector<uint64_t> all;
  for (int i = 0; i < argc; ++i)
    {
    FILE * f = fopen(argv[i], "rb"); if (!f) continue;
    uint64_t buf[4096]; size_t g;
    while ((g = fread(buf, 8, 4096, f)) > 0) all.insert(all.end(), buf, buf + g);
    fclose(f);
    }
  size_t total = all.size();
  std::sort(all.begin(), all.end());
  size_t distinct = static_cast<size_t>(std::unique(all.begin(), all.end()) - all.begin());
  printf("MERGE {\"hashes\":%zu,\"distinct\":%zu}\n", total, distinct);
  return 0;
  }

int main(int argc, char ** argv)
  {
  if (argc >= 2 && std::string(argv[1]) == "--lifecycle-child") { hsim_lc_main_phase(); return 0; }     // sim/early.cc does the rest
  g_ops = hsim_build_catalogue();         // registers function pointers only; calls nothing in the library
  if (argc >= 2 && std::string(argv[1]) == "--list-ops")
    { for (auto & o : g_ops) printf("%s\n", o.name.c_str()); return 0; }
  if (argc >= 4 && std::string(argv[1]) == "--scan")
    {
    const char * hf = nullptr; uint64_t maxf = 3; std::string mode = "serial";
    for (int i = 4; i + 1 < argc; i += 2)
      {
      if (std::string(argv[i]) == "--hashes") hf = argv[i + 1];
      if (std::string(argv[i]) == "--max-findings") maxf = strtoull(argv[i + 1], nullptr, 10);
      if (std::string(argv[i]) == "--mode") mode = argv[i + 1];
      }
    uint64_t s0 = strtoull(argv[2], nullptr, 10), cnt = strtoull(argv[3], nullptr, 10);
    return mode == "fine" ? do_scan_fine(s0, cnt, hf, maxf) : do_scan_serial(s0, cnt, hf, maxf);
    }
  if (argc >= 2 && std::string(argv[1]) == "--exec") return do_exec();
  if (argc >= 2 && std::string(argv[1]) == "--merge") return do_merge(argc - 2, argv + 2);
  fprintf(stderr, "usage: hsim --scan <seed0> <count> [--mode serial|fine] [--hashes f] [--max-findings n] | --exec | --merge files.. | --list-ops\n");
  return 2;
  }
