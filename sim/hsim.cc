// hsim - deterministic simulation of caller threads against the real fixed_math library.
// See DESIGN.md section 9.  Decides one thing: the bits a public call returns at run time
// do not depend on the history of earlier calls nor on how callers' calls interleave.
//
//   hsim --scan <seed0> <count> [--hashes <file>]   explore <count> seeds; prints FOUND/STATS lines
//   hsim --exec                                      execute a schedule given on stdin, print EXEC line
//   hsim --merge <files...>                          count distinct 64-bit hashes in binary files
//   hsim --list-ops
//
// The process that parses arguments (the "zygote") never calls into the library; every
// execution happens in a forked child, so every history starts from pristine library state.
#include <fixedmath/fixed_math.hpp>

#include <algorithm>
#include <cerrno>
#include <cinttypes>
#include <csetjmp>
#include <csignal>
#include <cstdint>
#include <cstdio>
#include <cstdlib>
#include <cstring>
#include <map>
#include <pthread.h>
#include <semaphore.h>
#include <string>
#include <sys/wait.h>
#include <type_traits>
#include <unistd.h>
#include <unordered_set>
#include <vector>

#if defined(__GNUC__)
#pragma GCC diagnostic ignored "-Wdeprecated-declarations"
#endif

#ifndef HSIM_BUILD_CELL
#define HSIM_BUILD_CELL "unknown"
#endif

using fixedmath::fixed_t;
using fixedmath::as_fixed;

// ---------------------------------------------------------------------------------------------
// PRNG: everything a run does is derived from one 64-bit seed
struct Rng
  {
  uint64_t s;
  explicit Rng(uint64_t seed) : s(seed) {}
  uint64_t next()
    {
    uint64_t z = (s += 0x9e3779b97f4a7c15ull);
    z = (z ^ (z >> 30)) * 0xbf58476d1ce4e5b9ull;
    z = (z ^ (z >> 27)) * 0x94d049bb133111ebull;
    return z ^ (z >> 31);
    }
  uint64_t below(uint64_t n) { return n ? next() % n : 0; }
  bool chance(unsigned pct) { return below(100) < pct; }
  };

static uint64_t mix64(uint64_t h, uint64_t v)
  {
  h ^= v + 0x9e3779b97f4a7c15ull + (h << 6) + (h >> 2);
  h *= 0xff51afd7ed558ccdull;
  return h ^ (h >> 32);
  }

// ---------------------------------------------------------------------------------------------
// operation catalogue: every public entry point as bits = op(bits, bits)
enum Kind : uint8_t { K_NONE, K_FX, K_I8, K_I16, K_I32, K_I64, K_U8, K_U16, K_U32, K_U64, K_F32, K_F64,
                      K_SH, K_ANG, K_IDX8, K_IDX360 };

template<class T> static inline T arg(uint64_t b)
  {
  if constexpr (std::is_same_v<T, fixed_t>) return as_fixed(static_cast<int64_t>(b));
  else if constexpr (std::is_same_v<T, float>) { uint32_t u = static_cast<uint32_t>(b); float f; std::memcpy(&f, &u, 4); return f; }
  else if constexpr (std::is_same_v<T, double>) { double d; std::memcpy(&d, &b, 8); return d; }
  else return static_cast<T>(b);
  }
template<class R> static inline uint64_t bits(R r)
  {
  if constexpr (std::is_same_v<R, fixed_t>) return static_cast<uint64_t>(r.v);
  else if constexpr (std::is_same_v<R, float>) { uint32_t u; std::memcpy(&u, &r, 4); return u; }
  else if constexpr (std::is_same_v<R, double>) { uint64_t u; std::memcpy(&u, &r, 8); return u; }
  else if constexpr (std::is_same_v<R, bool>) return r ? 1u : 0u;
  else return static_cast<uint64_t>(static_cast<int64_t>(r));
  }

using opfn = uint64_t (*)(uint64_t, uint64_t);
using okfn = bool (*)(uint64_t, uint64_t);
struct Op { std::string name; Kind ka, kb; opfn fn; okfn ok; int family; };
static std::vector<Op> g_ops;

static bool ok_always(uint64_t, uint64_t) { return true; }
// input-only traps of the unchanged tree (DESIGN 6, C03) are kept out of the workload
static bool ok_b_not_m1(uint64_t, uint64_t b) { return static_cast<int64_t>(b) != -1; }
static bool ok_a_not_m1(uint64_t a, uint64_t) { return static_cast<int64_t>(a) != -1; }
static bool ok_a_not_min(uint64_t a, uint64_t) { return static_cast<int64_t>(a) != INT64_MIN; }
static bool ok_f32_div(uint64_t, uint64_t b) { float f = arg<float>(b); return !(f < 0.0f && f > -1e-4f); }

enum Family { FAM_ARITH, FAM_CONV, FAM_MISC, FAM_SQRT, FAM_TRIG, FAM_ATRIG, FAM_ANGLE, FAM_TABLE };

static void reg(std::string n, Kind a, Kind b, opfn f, int fam, okfn ok = ok_always)
  { g_ops.push_back(Op{std::move(n), a, b, f, ok, fam}); }

#define FXU(NAME, FAM, EXPR) reg(NAME, K_FX, K_NONE, [](uint64_t A, uint64_t) -> uint64_t { fixed_t a = arg<fixed_t>(A); (void)a; return bits(EXPR); }, FAM)
#define FXB(NAME, FAM, EXPR, OK) reg(NAME, K_FX, K_FX, [](uint64_t A, uint64_t B) -> uint64_t { fixed_t a = arg<fixed_t>(A), b = arg<fixed_t>(B); (void)a; (void)b; return bits(EXPR); }, FAM, OK)

template<class T> static void reg_mixed(const char * tn, Kind k)
  {
  std::string s(tn);
  constexpr bool is_int = std::is_integral_v<T>;
  constexpr bool is_dbl = std::is_same_v<T, double>;
  okfn div_ft = is_int ? ok_a_not_min : (is_dbl ? ok_always : ok_f32_div);   // fixed / T
  okfn div_tf = is_dbl ? ok_always : ok_a_not_m1;                            // T / fixed   (A is the fixed operand)
  reg("add_fx_" + s, K_FX, k, [](uint64_t A, uint64_t B) -> uint64_t { return bits(arg<fixed_t>(A) + arg<T>(B)); }, FAM_ARITH);
  reg("add_" + s + "_fx", K_FX, k, [](uint64_t A, uint64_t B) -> uint64_t { return bits(arg<T>(B) + arg<fixed_t>(A)); }, FAM_ARITH);
  reg("sub_fx_" + s, K_FX, k, [](uint64_t A, uint64_t B) -> uint64_t { return bits(arg<fixed_t>(A) - arg<T>(B)); }, FAM_ARITH);
  reg("sub_" + s + "_fx", K_FX, k, [](uint64_t A, uint64_t B) -> uint64_t { return bits(arg<T>(B) - arg<fixed_t>(A)); }, FAM_ARITH);
  reg("mul_fx_" + s, K_FX, k, [](uint64_t A, uint64_t B) -> uint64_t { return bits(arg<fixed_t>(A) * arg<T>(B)); }, FAM_ARITH);
  reg("mul_" + s + "_fx", K_FX, k, [](uint64_t A, uint64_t B) -> uint64_t { return bits(arg<T>(B) * arg<fixed_t>(A)); }, FAM_ARITH);
  reg("div_fx_" + s, K_FX, k, [](uint64_t A, uint64_t B) -> uint64_t { return bits(arg<fixed_t>(A) / arg<T>(B)); }, FAM_ARITH, div_ft);
  reg("div_" + s + "_fx", K_FX, k, [](uint64_t A, uint64_t B) -> uint64_t { return bits(arg<T>(B) / arg<fixed_t>(A)); }, FAM_ARITH, div_tf);
  if constexpr (!is_dbl)
    {
    reg("addeq_fx_" + s, K_FX, k, [](uint64_t A, uint64_t B) -> uint64_t { fixed_t a = arg<fixed_t>(A); a += arg<T>(B); return bits(a); }, FAM_ARITH);
    reg("subeq_fx_" + s, K_FX, k, [](uint64_t A, uint64_t B) -> uint64_t { fixed_t a = arg<fixed_t>(A); a -= arg<T>(B); return bits(a); }, FAM_ARITH);
    reg("muleq_fx_" + s, K_FX, k, [](uint64_t A, uint64_t B) -> uint64_t { fixed_t a = arg<fixed_t>(A); a *= arg<T>(B); return bits(a); }, FAM_ARITH);
    reg("diveq_fx_" + s, K_FX, k, [](uint64_t A, uint64_t B) -> uint64_t { fixed_t a = arg<fixed_t>(A); a /= arg<T>(B); return bits(a); }, FAM_ARITH, div_ft);
    }
  reg("ctor_" + s, k, K_NONE, [](uint64_t A, uint64_t) -> uint64_t { return bits(fixed_t{arg<T>(A)}); }, FAM_CONV);
  reg("to_" + s, K_FX, K_NONE, [](uint64_t A, uint64_t) -> uint64_t { return bits(static_cast<T>(arg<fixed_t>(A))); }, FAM_CONV);
  reg("to_arith_" + s, K_FX, K_NONE, [](uint64_t A, uint64_t) -> uint64_t { return bits(fixedmath::fixed_to_arithmetic<T>(arg<fixed_t>(A))); }, FAM_CONV);
  }

template<class T> static void reg_angle(const char * tn, Kind k)
  {
  std::string s(tn);
  reg("sin_angle_" + s, k, K_NONE, [](uint64_t A, uint64_t) -> uint64_t { return bits(fixedmath::sin_angle(arg<T>(A))); }, FAM_ANGLE);
  reg("cos_angle_" + s, k, K_NONE, [](uint64_t A, uint64_t) -> uint64_t { return bits(fixedmath::cos_angle(arg<T>(A))); }, FAM_ANGLE);
  reg("tan_angle_" + s, k, K_NONE, [](uint64_t A, uint64_t) -> uint64_t { return bits(fixedmath::tan_angle(arg<T>(A))); }, FAM_ANGLE);
  if constexpr (std::is_integral_v<T>)
    reg("angle_to_radians_" + s, k, K_NONE, [](uint64_t A, uint64_t) -> uint64_t { return bits(fixedmath::angle_to_radians(arg<T>(A))); }, FAM_ANGLE);
  }

static void build_catalogue()
  {
  using namespace fixedmath;
  FXB("add", FAM_ARITH, a + b, ok_always);
  FXB("sub", FAM_ARITH, a - b, ok_always);
  FXB("mul", FAM_ARITH, a * b, ok_always);
  FXB("div", FAM_ARITH, a / b, ok_b_not_m1);
  FXB("addeq", FAM_ARITH, (a += b), ok_always);
  FXB("subeq", FAM_ARITH, (a -= b), ok_always);
  FXB("muleq", FAM_ARITH, (a *= b), ok_always);
  FXB("diveq", FAM_ARITH, (a /= b), ok_b_not_m1);
  FXB("fixed_addition", FAM_ARITH, fixed_addition(a, b), ok_always);
  FXB("fixed_substract", FAM_ARITH, fixed_substract(a, b), ok_always);
  FXB("fixed_multiply", FAM_ARITH, fixed_multiply(a, b), ok_always);
  FXB("fixed_division", FAM_ARITH, fixed_division(a, b), ok_b_not_m1);
  FXB("and", FAM_MISC, a & b, ok_always);
  FXB("eq", FAM_MISC, a == b, ok_always);
  FXB("ne", FAM_MISC, a != b, ok_always);
  FXB("lt", FAM_MISC, a < b, ok_always);
  FXB("le", FAM_MISC, a <= b, ok_always);
  FXB("gt", FAM_MISC, a > b, ok_always);
  FXB("ge", FAM_MISC, a >= b, ok_always);
  FXB("hypot", FAM_SQRT, hypot(a, b), ok_always);
  FXB("atan2", FAM_ATRIG, atan2(a, b), ok_b_not_m1);
  FXB("hypot_aprox", FAM_TABLE, hypot_aprox(a, b), ok_always);
  FXU("neg", FAM_MISC, -a);
  FXU("abs", FAM_MISC, abs(a));
  FXU("isnan", FAM_MISC, isnan(a));
  FXU("ceil", FAM_MISC, ceil(a));
  FXU("floor", FAM_MISC, floor(a));
  FXU("sqrt", FAM_SQRT, sqrt(a));
  FXU("sin", FAM_TRIG, sin(a));
  FXU("cos", FAM_TRIG, cos(a));
  FXU("tan", FAM_TRIG, tan(a));
  FXU("asin", FAM_ATRIG, asin(a));
  FXU("acos", FAM_ATRIG, acos(a));
  FXU("atan", FAM_ATRIG, atan(a));
  FXU("sqrt_aprox", FAM_TABLE, sqrt_aprox(a));
  FXU("atan_index_aprox", FAM_TABLE, atan_index_aprox(a));
  FXU("atan_aprox", FAM_TABLE, atan_aprox(a));
  reg("shr", K_FX, K_SH, [](uint64_t A, uint64_t B) -> uint64_t { return bits(arg<fixed_t>(A) >> arg<int>(B)); }, FAM_MISC);
  reg("shl", K_FX, K_SH, [](uint64_t A, uint64_t B) -> uint64_t { return bits(arg<fixed_t>(A) << arg<int>(B)); }, FAM_MISC);
  reg_mixed<int8_t>("i8", K_I8);     reg_mixed<int16_t>("i16", K_I16);
  reg_mixed<int32_t>("i32", K_I32);  reg_mixed<int64_t>("i64", K_I64);
  reg_mixed<uint8_t>("u8", K_U8);    reg_mixed<uint16_t>("u16", K_U16);
  reg_mixed<uint32_t>("u32", K_U32); reg_mixed<uint64_t>("u64", K_U64);
  reg_mixed<float>("f32", K_F32);    reg_mixed<double>("f64", K_F64);
  reg_angle<int8_t>("i8", K_I8);     reg_angle<int16_t>("i16", K_I16);
  reg_angle<int32_t>("i32", K_I32);  reg_angle<int64_t>("i64", K_I64);
  reg_angle<uint8_t>("u8", K_U8);    reg_angle<uint16_t>("u16", K_U16);
  reg_angle<uint32_t>("u32", K_U32); reg_angle<uint64_t>("u64", K_U64);
  reg_angle<float>("f32", K_F32);    reg_angle<fixed_t>("fx", K_FX);
  reg("sin_angle_aprox", K_ANG, K_NONE, [](uint64_t A, uint64_t) -> uint64_t { return bits(fixedmath::sin_angle_aprox(arg<int32_t>(A))); }, FAM_TABLE);
  reg("cos_angle_aprox", K_ANG, K_NONE, [](uint64_t A, uint64_t) -> uint64_t { return bits(fixedmath::cos_angle_aprox(arg<int32_t>(A))); }, FAM_TABLE);
  reg("tan_tab", K_IDX8, K_NONE, [](uint64_t A, uint64_t) -> uint64_t { return bits(fixedmath::tan_tab(arg<uint8_t>(A))); }, FAM_TABLE);
  reg("square_root_tab", K_IDX8, K_NONE, [](uint64_t A, uint64_t) -> uint64_t { return bits(fixedmath::square_root_tab(arg<uint8_t>(A))); }, FAM_TABLE);
  reg("sin_angle_tab", K_IDX360, K_NONE, [](uint64_t A, uint64_t) -> uint64_t { return bits(fixedmath::sin_angle_tab(arg<uint16_t>(A))); }, FAM_TABLE);
  reg("cos_angle_tab", K_IDX360, K_NONE, [](uint64_t A, uint64_t) -> uint64_t { return bits(fixedmath::cos_angle_tab(arg<uint16_t>(A))); }, FAM_TABLE);
  }

static int op_index(const std::string & n)
  {
  for (size_t i = 0; i < g_ops.size(); ++i) if (g_ops[i].name == n) return static_cast<int>(i);
  return -1;
  }

// ---------------------------------------------------------------------------------------------
// workload generation
static const int64_t PHI_RAW = 205887;   // the library's pi constant; only used to aim arguments, never as an oracle

enum AliasKind { AL_NONE, AL_SAME, AL_LOW32, AL_LOW16, AL_LOW48, AL_HIGH, AL_FOLD, AL_BIT, AL_NEG, AL_PI, AL_2PI, AL_N };
static const char * alias_name[AL_N] = {"fresh", "identical", "same_low32", "same_low16", "same_low48", "same_high_bits",
                                        "xor_fold_equal", "one_bit_flip", "negated", "plus_k_pi", "plus_k_2pi"};

static uint64_t fresh_fx(Rng & r)
  {
  static const int64_t special[] = {0, 1, -1, 65536, -65536, 32768, 3, 0x10000 * 256ll, PHI_RAW, PHI_RAW / 2, 2 * PHI_RAW,
                                    0x100000000ll, 0x100010001ll, (1ll << 45), (1ll << 46) - 1, (1ll << 47) - 1, -(1ll << 47) + 1,
                                    0x7fffffffffffll, INT64_MAX, INT64_MIN + 1, INT64_MIN, 0x7ffffffffffffffell, 39322, 65535};
  switch (r.below(8))
    {
    case 0: return static_cast<uint64_t>(special[r.below(sizeof(special) / sizeof(special[0]))]);
    case 1: return static_cast<uint64_t>(static_cast<int64_t>(r.below(1u << 17)) - (1 << 16));           // [-1, 1]
    case 2: return static_cast<uint64_t>(static_cast<int64_t>(r.below(4 * PHI_RAW)) - 2 * PHI_RAW);         // [-2pi, 2pi]
    case 3: return static_cast<uint64_t>(static_cast<int64_t>(r.below(1ull << 26)) - (1ll << 25));          // small
    case 4: return static_cast<uint64_t>(static_cast<int64_t>(r.below(1ull << 38)) - (1ll << 37));          // medium
    case 5: return static_cast<uint64_t>(static_cast<int64_t>(r.below(1ull << 48)) - (1ll << 47));          // |x| < 2^31
    case 6: return static_cast<uint64_t>(static_cast<int64_t>(r.below(1ull << 47)));                         // non-negative
    default: return r.next();
    }
  }

static uint64_t alias_fx(Rng & r, uint64_t v, AliasKind & kind)
  {
  uint64_t k = 1 + r.below(3);
  bool up = r.chance(50);
  kind = static_cast<AliasKind>(1 + r.below(AL_N - 1));
  switch (kind)
    {
    case AL_SAME: return v;
    case AL_LOW32: return up ? v + (k << 32) : v - (k << 32);
    case AL_LOW16: return up ? v + (k << 16) : v - (k << 16);
    case AL_LOW48: return up ? v + (k << 48) : v - (k << 48);
    case AL_HIGH: return (v & ~0xffffull) | r.below(1u << 16);
    case AL_FOLD: { uint64_t m = r.chance(50) ? k : (r.next() & 0xffffffffull); return v ^ m ^ (m << 32); }
    case AL_BIT: return v ^ (1ull << r.below(64));
    case AL_NEG: return static_cast<uint64_t>(-static_cast<int64_t>(v));
    case AL_PI: return up ? v + k * PHI_RAW : v - k * PHI_RAW;
    case AL_2PI: return up ? v + k * 2 * PHI_RAW : v - k * 2 * PHI_RAW;
    default: return v;
    }
  }

static uint64_t fresh_arg(Rng & r, Kind k)
  {
  auto ival = [&](int64_t lo, int64_t hi, bool is_signed) -> uint64_t
    {
    static const int64_t sp[] = {0, 1, -1, 2, 3, 45, 90, 104, 105, 127, 128, 180, 200, 255, 256, 360, 361, 1000, 65535, 65536};
    int64_t v;
    switch (r.below(4))
      {
      case 0: v = sp[r.below(sizeof(sp) / sizeof(sp[0]))]; break;
      case 1: v = r.chance(50) ? hi : lo; break;
      case 2: v = static_cast<int64_t>(r.below(721)) - 360; break;
      default: v = static_cast<int64_t>(r.next()); break;
      }
    if (!is_signed && v < 0) v = -v;
    (void)lo; (void)hi;
    return static_cast<uint64_t>(v);       // arg<T>() truncates to the operand type
    };
  switch (k)
    {
    case K_FX: return fresh_fx(r);
    case K_I8: return ival(INT8_MIN, INT8_MAX, true);
    case K_I16: return ival(INT16_MIN, INT16_MAX, true);
    case K_I32: return ival(INT32_MIN, INT32_MAX, true);
    case K_I64: return ival(INT64_MIN + 1, INT64_MAX, true);
    case K_U8: return ival(0, UINT8_MAX, false);
    case K_U16: return ival(0, UINT16_MAX, false);
    case K_U32: return ival(0, UINT32_MAX, false);
    case K_U64: return ival(0, INT64_MAX, false);
    case K_F32:
      {
      static const float sp[] = {0.f, 1.f, -1.f, 0.5f, 180.f, 360.f, 90.f, 1e-5f, 3.14159265f, 2147483520.f, 65536.f, -0.25f};
      float f;
      switch (r.below(4))
        {
        case 0: f = sp[r.below(sizeof(sp) / sizeof(sp[0]))]; break;
        case 1: f = static_cast<float>(static_cast<int64_t>(r.below(1u << 20)) - (1 << 19)) / 256.f; break;
        case 2: f = static_cast<float>(static_cast<int64_t>(r.below(721)) - 360); break;
        default: { uint32_t u = static_cast<uint32_t>(r.next()); std::memcpy(&f, &u, 4); } break;
        }
      return bits(f);
      }
    case K_F64:
      {
      static const double sp[] = {0., 1., -1., 0.5, 180., 1e-9, 3.141592653589793, 2147483647., 65536., -0.25};
      double d;
      switch (r.below(3))
        {
        case 0: d = sp[r.below(sizeof(sp) / sizeof(sp[0]))]; break;
        case 1: d = static_cast<double>(static_cast<int64_t>(r.below(1ull << 40)) - (1ll << 39)) / 65536.; break;
        default: { uint64_t u = r.next(); std::memcpy(&d, &u, 8); } break;
        }
      return bits(d);
      }
    case K_SH: return r.chance(85) ? r.below(64) : static_cast<uint64_t>(-static_cast<int64_t>(1 + r.below(40)));
    case K_ANG: return r.chance(60) ? r.below(1000) : r.below(0x7fffffffull);
    case K_IDX8: return r.below(256);
    case K_IDX360: return r.below(361);
    default: return 0;
    }
  }

static uint64_t alias_arg(Rng & r, Kind k, uint64_t v, AliasKind & kind)
  {
  if (k == K_FX) return alias_fx(r, v, kind);
  switch (r.below(4))
    {
    case 0: kind = AL_SAME; return v;
    case 1: kind = AL_LOW16; if (k == K_ANG) return (v + 65536 * (1 + r.below(3))) & 0x7fffffffull; return v + 65536 * (1 + r.below(3));
    case 2: kind = AL_LOW32; if (k == K_ANG) return (v + 360 * (1 + r.below(1000))) & 0x7fffffffull; return v + (1ull << 32);
    default: kind = AL_BIT; if (k == K_ANG || k == K_IDX8 || k == K_IDX360) { kind = AL_SAME; return v; } return v ^ (1ull << r.below(16));
    }
  }

struct Item { uint8_t client; uint16_t op; uint64_t a, b; uint8_t alias; int16_t alias_of; };
struct Plan { int clients; std::vector<Item> items; uint64_t hash; bool nontrivial; };

static Plan gen_plan(uint64_t seed)
  {
  Rng r(seed ^ 0x5851f42d4c957f2dull);
  Plan p;
  unsigned kc = r.below(100);
  p.clients = kc < 30 ? 1 : kc < 65 ? 2 : kc < 85 ? 3 : 4;
  size_t n = 6 + r.below(40);
  // swarm: a few focus operations per run so the same entry point is hit repeatedly
  size_t nfocus = 1 + r.below(4);
  std::vector<uint16_t> focus;
  for (size_t i = 0; i < nfocus; ++i)
    {
    // pick a family first (the math and table families are where a cache or a lazy table would live,
    // so they get more weight), then an operation inside it
    static const int fam_weight[] = {FAM_ARITH, FAM_CONV, FAM_MISC, FAM_SQRT, FAM_SQRT, FAM_SQRT, FAM_TRIG, FAM_TRIG, FAM_TRIG,
                                     FAM_ATRIG, FAM_ATRIG, FAM_ATRIG, FAM_ANGLE, FAM_ANGLE, FAM_TABLE, FAM_TABLE, FAM_TABLE};
    int fam = fam_weight[r.below(sizeof(fam_weight) / sizeof(fam_weight[0]))];
    std::vector<uint16_t> c;
    for (size_t j = 0; j < g_ops.size(); ++j) if (g_ops[j].family == fam) c.push_back(static_cast<uint16_t>(j));
    focus.push_back(c[r.below(c.size())]);
    }
  p.nontrivial = false;
  for (size_t i = 0; i < n; ++i)
    {
    Item it{};
    it.client = static_cast<uint8_t>(r.below(p.clients));
    it.op = r.chance(85) ? focus[r.below(focus.size())] : static_cast<uint16_t>(r.below(g_ops.size()));
    const Op & op = g_ops[it.op];
    it.alias = AL_NONE; it.alias_of = -1;
    for (int attempt = 0; attempt < 20; ++attempt)
      {
      it.alias = AL_NONE; it.alias_of = -1;
      // earlier call whose first argument we alias: same op preferred, else any op with the same argument kind
      int src = -1;
      if (i > 0 && r.chance(60))
        {
        std::vector<int> same, kind;
        for (size_t j = 0; j < i; ++j)
          {
          if (p.items[j].op == it.op) same.push_back(static_cast<int>(j));
          else if (g_ops[p.items[j].op].ka == op.ka) kind.push_back(static_cast<int>(j));
          }
        if (!same.empty() && (kind.empty() || r.chance(80))) src = same[r.below(same.size())];
        else if (!kind.empty()) src = kind[r.below(kind.size())];
        }
      if (src >= 0)
        {
        AliasKind ak = AL_NONE;
        it.a = alias_arg(r, op.ka, p.items[src].a, ak);
        it.alias = static_cast<uint8_t>(ak); it.alias_of = static_cast<int16_t>(src);
        it.b = (op.kb == g_ops[p.items[src].op].kb && r.chance(70)) ? p.items[src].b : fresh_arg(r, op.kb);
        }
      else
        {
        it.a = fresh_arg(r, op.ka);
        it.b = fresh_arg(r, op.kb);
        }
      if (op.ok(it.a, it.b)) break;
      it.a = 65536; it.b = (op.kb == K_FX) ? 65536 : 1; it.alias = AL_NONE; it.alias_of = -1;
      }
    if (it.alias_of >= 0) p.nontrivial = true;
    p.items.push_back(it);
    }
  uint64_t h = mix64(0x1234, static_cast<uint64_t>(p.clients));
  for (const Item & it : p.items) { h = mix64(h, it.client); h = mix64(h, it.op); h = mix64(h, it.a); h = mix64(h, it.b); }
  p.hash = h;
  return p;
  }

// ---------------------------------------------------------------------------------------------
// execution: simulated clients are real threads, released one call at a time
struct Res { uint32_t status; uint32_t pad; uint64_t bits; };      // status 0 = returned, else signal number, 255 = not executed
static inline bool same(const Res & x, const Res & y) { return x.status == y.status && (x.status != 0 || x.bits == y.bits); }

static thread_local sigjmp_buf tl_env;
static thread_local volatile sig_atomic_t tl_armed = 0;
static void on_signal(int sig)
  {
  if (tl_armed) { tl_armed = 0; siglongjmp(tl_env, sig); }
  signal(sig, SIG_DFL); raise(sig);
  }

struct ClientSlot { sem_t go; const Item * item; Res res; bool quit; };
static ClientSlot g_slots[8];
static sem_t g_done;

static Res call_once(const Item & it)
  {
  Res r{255, 0, 0};
  int sig = sigsetjmp(tl_env, 1);
  if (sig == 0)
    {
    tl_armed = 1;
    uint64_t v = g_ops[it.op].fn(it.a, it.b);
    tl_armed = 0;
    r.status = 0; r.bits = v;
    }
  else { r.status = static_cast<uint32_t>(sig); r.bits = 0; }
  return r;
  }

static void * client_main(void * p)
  {
  ClientSlot * s = static_cast<ClientSlot *>(p);
  for (;;)
    {
    while (sem_wait(&s->go) != 0 && errno == EINTR) {}
    if (s->quit) return nullptr;
    s->res = call_once(*s->item);
    sem_post(&g_done);
    }
  }

// runs in a forked child: execute items[order[0..]] on their clients, write Res for each to fd, exit
[[noreturn]] static void child_execute(const std::vector<Item> & items, const std::vector<int> & order, int clients, int fd)
  {
  struct sigaction sa{};
  sa.sa_handler = on_signal; sigemptyset(&sa.sa_mask); sa.sa_flags = SA_NODEFER;
  sigaction(SIGFPE, &sa, nullptr); sigaction(SIGSEGV, &sa, nullptr); sigaction(SIGBUS, &sa, nullptr); sigaction(SIGILL, &sa, nullptr);
  sem_init(&g_done, 0, 0);
  pthread_t th[8];
  for (int c = 0; c < clients; ++c)
    {
    sem_init(&g_slots[c].go, 0, 0); g_slots[c].quit = false;
    if (pthread_create(&th[c], nullptr, client_main, &g_slots[c]) != 0) _exit(3);
    }
  std::vector<Res> out(order.size());
  for (size_t i = 0; i < order.size(); ++i)
    {
    const Item & it = items[order[i]];
    ClientSlot & s = g_slots[it.client];
    s.item = &it;
    sem_post(&s.go);
    while (sem_wait(&g_done) != 0 && errno == EINTR) {}
    out[i] = s.res;
    }
  size_t total = out.size() * sizeof(Res), off = 0;
  const char * buf = reinterpret_cast<const char *>(out.data());
  while (off < total) { ssize_t w = write(fd, buf + off, total - off); if (w <= 0) _exit(4); off += static_cast<size_t>(w); }
  _exit(0);
  }

static uint64_t g_forks = 0;
// zygote side: fork a pristine child, run the schedule, collect results (index i = order[i])
static std::vector<Res> run_history(const std::vector<Item> & items, const std::vector<int> & order, int clients)
  {
  int pf[2];
  if (pipe(pf) != 0) { perror("pipe"); exit(2); }
  fflush(stdout);
  pid_t pid = fork();
  if (pid < 0) { perror("fork"); exit(2); }
  ++g_forks;
  if (pid == 0) { close(pf[0]); child_execute(items, order, clients, pf[1]); }
  close(pf[1]);
  std::vector<Res> out(order.size(), Res{255, 0, 0});
  size_t total = out.size() * sizeof(Res), off = 0;
  char * buf = reinterpret_cast<char *>(out.data());
  while (off < total) { ssize_t g = read(pf[0], buf + off, total - off); if (g <= 0) { if (g < 0 && errno == EINTR) continue; break; } off += static_cast<size_t>(g); }
  close(pf[0]);
  int st = 0; while (waitpid(pid, &st, 0) < 0 && errno == EINTR) {}
  if (off != total) for (auto & r : out) r = Res{255, 0, 0};
  return out;
  }

static Res isolated(const Item & it)
  {
  std::vector<Item> one{it}; one[0].client = 0;
  return run_history(one, std::vector<int>{0}, 1)[0];
  }

// ---------------------------------------------------------------------------------------------
static std::string hex(uint64_t v) { char b[32]; snprintf(b, sizeof b, "0x%016" PRIx64, v); return b; }
static std::string res_json(const Res & r)
  { return std::string("{\"status\":") + std::to_string(r.status) + ",\"bits\":\"" + hex(r.bits) + "\"}"; }

struct Finding { uint64_t seed; int clients; std::vector<Item> steps; Res iso, observed; std::string order; int tests; size_t original_len; };

// does executing `hist` (indices into items, in order) and then `victim` give the victim something other than iso?
static bool fails(const std::vector<Item> & items, const std::vector<int> & hist, int victim, int clients, const Res & iso, Res * seen)
  {
  std::vector<int> order(hist); order.push_back(victim);
  std::vector<Res> r = run_history(items, order, clients);
  if (seen) *seen = r.back();
  return r.back().status != 255 && !same(r.back(), iso);
  }

static Finding minimise(uint64_t seed, const Plan & p, std::vector<int> hist, int victim, const Res & iso, const char * order_name)
  {
  Finding f; f.seed = seed; f.clients = p.clients; f.iso = iso; f.order = order_name; f.tests = 0; f.original_len = hist.size() + 1;
  // ddmin over the calls that precede the victim
  size_t n = 2;
  while (hist.size() >= 2)
    {
    size_t chunk = (hist.size() + n - 1) / n;
    bool reduced = false;
    for (size_t start = 0; start < hist.size() && !reduced; start += chunk)
      {
      std::vector<int> comp;
      for (size_t i = 0; i < hist.size(); ++i) if (i < start || i >= start + chunk) comp.push_back(hist[i]);
      ++f.tests;
      if (fails(p.items, comp, victim, p.clients, iso, nullptr)) { hist = comp; n = std::max<size_t>(n - 1, 2); reduced = true; }
      }
    if (!reduced) { if (n >= hist.size()) break; n = std::min(hist.size(), n * 2); }
    }
  if (hist.size() == 1) { ++f.tests; if (fails(p.items, {}, victim, p.clients, iso, nullptr)) hist.clear(); }
  Res seen{};
  ++f.tests; fails(p.items, hist, victim, p.clients, iso, &seen);
  f.observed = seen;
  for (int i : hist) f.steps.push_back(p.items[i]);
  f.steps.push_back(p.items[victim]);
  // renumber clients densely so the replay needs no more threads than it uses
  std::map<int, int> ren;
  for (auto & s : f.steps) { if (!ren.count(s.client)) { int k = static_cast<int>(ren.size()); ren[s.client] = k; } s.client = static_cast<uint8_t>(ren[s.client]); }
  f.clients = static_cast<int>(ren.size());
  return f;
  }

static void print_finding(const Finding & f)
  {
  std::string s = "FOUND {\"seed\":" + std::to_string(f.seed) + ",\"build\":\"" HSIM_BUILD_CELL "\",\"clients\":" + std::to_string(f.clients) +
                  ",\"failing_order\":\"" + f.order + "\",\"original_history_len\":" + std::to_string(f.original_len) +
                  ",\"minimise_tests\":" + std::to_string(f.tests) + ",\"steps\":[";
  for (size_t i = 0; i < f.steps.size(); ++i)
    {
    const Item & it = f.steps[i];
    if (i) s += ",";
    s += "{\"client\":" + std::to_string(it.client) + ",\"op\":\"" + g_ops[it.op].name + "\",\"a\":\"" + hex(it.a) + "\",\"b\":\"" + hex(it.b) + "\"}";
    }
  s += "],\"isolated\":" + res_json(f.iso) + ",\"observed\":" + res_json(f.observed) + "}";
  puts(s.c_str()); fflush(stdout);
  }

static int do_scan(uint64_t seed0, uint64_t count, const char * hashfile, uint64_t max_findings)
  {
  std::vector<uint64_t> per_op(g_ops.size(), 0);
  uint64_t clients_hist[5] = {0, 0, 0, 0, 0};
  uint64_t alias_same_client[AL_N] = {0}, alias_cross_client[AL_N] = {0};
  uint64_t calls = 0, runs = 0, nontrivial = 0, iso_checks = 0, ab_disagreements = 0, signals_seen = 0, lost = 0, findings = 0;
  uint64_t digest = 0;
  std::unordered_set<uint64_t> adjacency;      // distinct (op, alias kind, cross-client?) x (op of source) combinations reached
  FILE * hf = hashfile ? fopen(hashfile, "wb") : nullptr;
  std::string sample;
  for (uint64_t k = 0; k < count; ++k)
    {
    uint64_t seed = seed0 + k;
    Plan p = gen_plan(seed);
    size_t n = p.items.size();
    std::vector<int> fwd(n), rev(n);
    for (size_t i = 0; i < n; ++i) { fwd[i] = static_cast<int>(i); rev[i] = static_cast<int>(n - 1 - i); }
    std::vector<Res> ra = run_history(p.items, fwd, p.clients);
    std::vector<Res> rb = run_history(p.items, rev, p.clients);
    ++runs; calls += 2 * n; clients_hist[p.clients]++;
    if (p.nontrivial) { ++nontrivial; if (hf) fwrite(&p.hash, 8, 1, hf); }
    uint64_t d = mix64(seed, p.hash);
    for (size_t i = 0; i < n; ++i)
      {
      const Item & it = p.items[i];
      per_op[it.op] += 2;
      d = mix64(d, ra[i].status); d = mix64(d, ra[i].bits);
      if (ra[i].status != 0 && ra[i].status != 255) ++signals_seen;
      if (ra[i].status == 255) ++lost;
      if (it.alias_of >= 0)
        {
        bool cross = p.items[it.alias_of].client != it.client;
        (cross ? alias_cross_client : alias_same_client)[it.alias]++;
        adjacency.insert(mix64(mix64(it.op, p.items[it.alias_of].op), (static_cast<uint64_t>(it.alias) << 1) | (cross ? 1u : 0u)));
        }
      }
    digest += d;                                  // additive: independent of how seeds are split over workers
    if (sample.empty() && p.nontrivial && n <= 12)
      {
      sample = "{\"seed\":" + std::to_string(seed) + ",\"clients\":" + std::to_string(p.clients) + ",\"schedule\":[";
      for (size_t i = 0; i < n; ++i)
        {
        const Item & it = p.items[i];
        if (i) sample += ",";
        sample += "\"c" + std::to_string(it.client) + ":" + g_ops[it.op].name + "(" + hex(it.a) + (g_ops[it.op].kb != K_NONE ? "," + hex(it.b) : "") + ")" +
                  (it.alias_of >= 0 ? std::string(" ~") + alias_name[it.alias] + "#" + std::to_string(it.alias_of) : "") + " -> " +
                  (ra[i].status ? "signal " + std::to_string(ra[i].status) : hex(ra[i].bits)) + "\"";
        }
      sample += "]}";
      }
    // oracle 1: the two histories must agree item by item; any disagreement is confirmed against isolation
    std::vector<int> suspects;
    for (size_t i = 0; i < n; ++i)
      {
      const Res & x = ra[i]; const Res & y = rb[n - 1 - i];
      if (x.status == 255 || y.status == 255) continue;
      if (!same(x, y)) { ++ab_disagreements; suspects.push_back(static_cast<int>(i)); }
      }
    // oracle 2: one seeded item per run is compared with its isolated execution directly
    {
    Rng pick(seed ^ 0xabcdef12345ull);
    int i = static_cast<int>(pick.below(n));
    if (std::find(suspects.begin(), suspects.end(), i) == suspects.end()) suspects.push_back(i);
    }
    for (int i : suspects)
      {
      Res iso = isolated(p.items[i]); ++iso_checks;
      if (iso.status == 255) continue;
      const Res & x = ra[i]; const Res & y = rb[n - 1 - i];
      std::vector<int> hist; const char * oname = nullptr;
      if (x.status != 255 && !same(x, iso)) { for (int j = 0; j < i; ++j) hist.push_back(j); oname = "plan order"; }
      else if (y.status != 255 && !same(y, iso)) { for (int j = static_cast<int>(n) - 1; j > i; --j) hist.push_back(j); oname = "reverse order"; }
      if (oname)
        {
        Finding f = minimise(seed, p, hist, i, iso, oname);
        if (f.observed.status != 255 && !same(f.observed, iso)) { print_finding(f); ++findings; }
        else { printf("UNSTABLE {\"seed\":%" PRIu64 ",\"item\":%d}\n", seed, i); }
        break;
        }
      }
    if (findings >= max_findings) break;
    }
  if (hf) fclose(hf);
  std::string s = "STATS {\"build\":\"" HSIM_BUILD_CELL "\",\"seed0\":" + std::to_string(seed0) + ",\"runs\":" + std::to_string(runs) +
                  ",\"calls\":" + std::to_string(calls) + ",\"forks\":" + std::to_string(g_forks) + ",\"nontrivial_runs\":" + std::to_string(nontrivial) +
                  ",\"isolation_checks\":" + std::to_string(iso_checks) + ",\"ab_disagreements\":" + std::to_string(ab_disagreements) +
                  ",\"signals_caught\":" + std::to_string(signals_seen) + ",\"items_lost\":" + std::to_string(lost) +
                  ",\"findings\":" + std::to_string(findings) + ",\"digest\":\"" + hex(digest) + "\",\"distinct_adjacencies\":" + std::to_string(adjacency.size()) +
                  ",\"clients_hist\":[" + std::to_string(clients_hist[1]) + "," + std::to_string(clients_hist[2]) + "," + std::to_string(clients_hist[3]) + "," + std::to_string(clients_hist[4]) + "]";
  s += ",\"alias_same_client\":{";
  for (int a = 1; a < AL_N; ++a) s += std::string(a > 1 ? "," : "") + "\"" + alias_name[a] + "\":" + std::to_string(alias_same_client[a]);
  s += "},\"alias_cross_client\":{";
  for (int a = 1; a < AL_N; ++a) s += std::string(a > 1 ? "," : "") + "\"" + alias_name[a] + "\":" + std::to_string(alias_cross_client[a]);
  s += "},\"per_op\":{";
  for (size_t i = 0; i < g_ops.size(); ++i) s += std::string(i ? "," : "") + "\"" + g_ops[i].name + "\":" + std::to_string(per_op[i]);
  s += "},\"adjacency_keys\":[";
  { bool first = true; for (uint64_t a : adjacency) { s += std::string(first ? "" : ",") + "\"" + hex(a) + "\""; first = false; } }
  s += "],\"sample\":" + (sample.empty() ? std::string("null") : sample) + "}";
  puts(s.c_str());
  return 0;
  }

// stdin: first line "clients N", then one line per step: "<client> <opname> <a hex> <b hex>"; the last step is the victim
static int do_exec()
  {
  char line[512]; int clients = 1; std::vector<Item> steps;
  while (fgets(line, sizeof line, stdin))
    {
    char name[256]; unsigned c; unsigned long long a, b;
    if (sscanf(line, "clients %d", &clients) == 1) continue;
    if (sscanf(line, "%u %255s %llx %llx", &c, name, &a, &b) == 4)
      {
      int oi = op_index(name);
      if (oi < 0) { fprintf(stderr, "hsim: unknown operation %s\n", name); return 2; }
      Item it{}; it.client = static_cast<uint8_t>(c); it.op = static_cast<uint16_t>(oi); it.a = a; it.b = b; it.alias_of = -1;
      steps.push_back(it);
      }
    }
  if (steps.empty() || clients < 1 || clients > 8) { fprintf(stderr, "hsim: empty or malformed schedule\n"); return 2; }
  for (auto & s : steps) if (s.client >= clients) { fprintf(stderr, "hsim: client out of range\n"); return 2; }
  std::vector<int> order(steps.size());
  for (size_t i = 0; i < steps.size(); ++i) order[i] = static_cast<int>(i);
  std::vector<Res> r = run_history(steps, order, clients);
  Res iso = isolated(steps.back());
  std::string s = "EXEC {\"build\":\"" HSIM_BUILD_CELL "\",\"observed\":" + res_json(r.back()) + ",\"isolated\":" + res_json(iso) +
                  ",\"differs\":" + ((r.back().status != 255 && iso.status != 255 && !same(r.back(), iso)) ? "true" : "false") + ",\"all\":[";
  for (size_t i = 0; i < r.size(); ++i) s += std::string(i ? "," : "") + res_json(r[i]);
  s += "]}";
  puts(s.c_str());
  return 0;
  }

static int do_merge(int argc, char ** argv)
  {
  std::vector<uint64_t> all;
  for (int i = 0; i < argc; ++i)
    {
    FILE * f = fopen(argv[i], "rb"); if (!f) continue;
    uint64_t buf[4096]; size_t g;
    while ((g = fread(buf, 8, 4096, f)) > 0) all.insert(all.end(), buf, buf + g);
    fclose(f);
    }
  size_t total = all.size();
  std::sort(all.begin(), all.end());
  size_t distinct = static_cast<size_t>(std::unique(all.begin(), all.end()) - all.begin());
  printf("MERGE {\"hashes\":%zu,\"distinct\":%zu}\n", total, distinct);
  return 0;
  }

int main(int argc, char ** argv)
  {
  build_catalogue();                      // registers function pointers only; calls nothing in the library
  if (argc >= 2 && std::string(argv[1]) == "--list-ops")
    { for (auto & o : g_ops) printf("%s\n", o.name.c_str()); return 0; }
  if (argc >= 4 && std::string(argv[1]) == "--scan")
    {
    const char * hf = nullptr; uint64_t maxf = 3;
    for (int i = 4; i + 1 < argc; i += 2)
      {
      if (std::string(argv[i]) == "--hashes") hf = argv[i + 1];
      if (std::string(argv[i]) == "--max-findings") maxf = strtoull(argv[i + 1], nullptr, 10);
      }
    return do_scan(strtoull(argv[2], nullptr, 10), strtoull(argv[3], nullptr, 10), hf, maxf);
    }
  if (argc >= 2 && std::string(argv[1]) == "--exec") return do_exec();
  if (argc >= 2 && std::string(argv[1]) == "--merge") return do_merge(argc - 2, argv + 2);
  fprintf(stderr, "usage: hsim --scan <seed0> <count> [--hashes f] [--max-findings n] | --exec | --merge files.. | --list-ops\n");
  return 2;
  }
