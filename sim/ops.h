// operation catalogue interface (see ops.cc)
#pragma once
#include <cstdint>
#include <string>
#include <vector>
enum Kind : uint8_t { K_NONE, K_FX, K_I8, K_I16, K_I32, K_I64, K_U8, K_U16, K_U32, K_U64, K_F32, K_F64,
                      K_SH, K_ANG, K_IDX8, K_IDX360 };
enum Family { FAM_ARITH, FAM_CONV, FAM_MISC, FAM_SQRT, FAM_TRIG, FAM_ATRIG, FAM_ANGLE, FAM_TABLE };
using opfn = uint64_t (*)(uint64_t, uint64_t);
using okfn = bool (*)(uint64_t, uint64_t);
struct Op { std::string name; Kind ka, kb; opfn fn; okfn ok; int family; };
// registers function pointers only; calls nothing in the library
std::vector<Op> hsim_build_catalogue();
