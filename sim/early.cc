// Life-cycle probe (DESIGN.md 9.7).  Linked BEFORE /repo's fixed_math.cc, so the one global object below is constructed
// before, and destroyed after, every object with dynamic initialisation or destruction that the library owns.
// It does something only in a process started with HSIM_LIFECYCLE_PLAN set (the harness re-executes itself that way);
// in every other process it is inert, so the zygote still never calls the library.
//
// Plan (environment variable), one call per ';'-separated field:  <phase e|m|l>,<op index>,<a hex>,<b hex>
// Results go to the file descriptor named by HSIM_LIFECYCLE_FD as  "<phase> <ordinal> <status> <bits hex>\n".
#include "ops.h"
#include <csetjmp>
#include <csignal>
#include <cstdio>
#include <cstdlib>
#include <cstring>
#include <unistd.h>

namespace
{
struct Call { char phase; unsigned op; unsigned long long a, b; };
sigjmp_buf lc_env;
volatile sig_atomic_t lc_armed = 0;
void lc_signal(int sig) { if (lc_armed) { lc_armed = 0; siglongjmp(lc_env, sig); } signal(sig, SIG_DFL); raise(sig); }
}

// shared with hsim.cc (which runs the main phase)
std::vector<Op> * hsim_lc_ops = nullptr;
int hsim_lc_fd = -1;
static std::vector<Call> * lc_calls = nullptr;

static void lc_run_phase(char phase)
  {
  if (!lc_calls || hsim_lc_fd < 0) return;
  unsigned ordinal = 0;
  for (const Call & c : *lc_calls)
    {
    if (c.phase != phase) continue;
    unsigned status = 0; unsigned long long bits = 0;
    int sig = sigsetjmp(lc_env, 1);
    if (sig == 0) { lc_armed = 1; bits = (*hsim_lc_ops)[c.op].fn(c.a, c.b); lc_armed = 0; }
    else status = static_cast<unsigned>(sig);
    char line[96];
    int n = snprintf(line, sizeof line, "%c %u %u %llx\n", phase, ordinal++, status, bits);
    if (write(hsim_lc_fd, line, static_cast<size_t>(n)) < 0) {}
    }
  }
void hsim_lc_main_phase() { lc_run_phase('m'); }

namespace
{
struct LifecycleProbe
  {
  LifecycleProbe()
    {
    const char * plan = getenv("HSIM_LIFECYCLE_PLAN");
    const char * fd = getenv("HSIM_LIFECYCLE_FD");
    if (!plan || !fd) return;
    hsim_lc_fd = atoi(fd);
    hsim_lc_ops = new std::vector<Op>(hsim_build_catalogue());      // registers function pointers only
    lc_calls = new std::vector<Call>();
    const char * p = plan;
    while (*p)
      {
      Call c{}; int used = 0;
      if (sscanf(p, "%c,%u,%llx,%llx%n", &c.phase, &c.op, &c.a, &c.b, &used) == 4 && c.op < hsim_lc_ops->size()) lc_calls->push_back(c);
      p += used; while (*p && *p != ';') ++p; if (*p == ';') ++p;
      if (!used) break;
      }
    struct sigaction sa{}; sa.sa_handler = lc_signal; sigemptyset(&sa.sa_mask); sa.sa_flags = SA_NODEFER;
    sigaction(SIGFPE, &sa, nullptr); sigaction(SIGSEGV, &sa, nullptr); sigaction(SIGBUS, &sa, nullptr); sigaction(SIGILL, &sa, nullptr);
    lc_run_phase('e');                                  // before the library's own dynamic initialisers
    }
  ~LifecycleProbe() { lc_run_phase('l'); }              // after the library's own destructors
  };
LifecycleProbe the_probe;
}
