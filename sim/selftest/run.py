#!/usr/bin/env python3
"""Self-test of the simulator (not a property check, not registered in MANIFEST).

Applies each seeded change / mechanical mutant to a scratch worktree of /repo, runs
`sim/check.py --tier quick` (scaled down) against it with VERIF_REPO, and compares the exit
status with what is expected:
   round A (input/config-only breaks)       -> 0   (out of reach by design; must not alarm or crash)
   round B (history), round C (preemption), D1, D3 -> 1;  D2, E1, E3 -> 0 or 1 at quick scale (thorough-scale targets);
   E2 (FP-environment state, outside every property's quantifier) -> 0
   correct caches / lazy init / locking     -> 0   (no false alarm, no hang)
Scratch worktrees live under $TMPDIR and are removed.  Usage: python3 sim/selftest/run.py [name ...]
"""
import os, subprocess, sys, tempfile, json, re
VERIF = os.path.dirname(os.path.dirname(os.path.dirname(os.path.abspath(__file__))))
CASES = [(n, "patch", 0) for n in ("C01", "C07", "C08", "C13", "C16", "C17", "C19")] + \
        [(n, "patch", 1) for n in ("C13h", "C19h", "C09h", "C19t", "C11t", "C14t", "D1", "D3")] + [("D2", "patch", None), ("E1", "patch", 1), ("E3", "patch", None), ("E2", "patch", 0), ("F1", "patch", 1), ("F2", "patch", 1), ("F3", "patch", None), ("G1", "patch", 1), ("G2", "patch", 1), ("G3", "patch", 1), ("H1", "patch", 1), ("H2", "patch", 1)] + \
        [("C13h_fulltag", "fulltag", 1), ("C13h_fulltag_threads_only", "fulltag", 0), ("lazy_bad", "mk", 1), ("mutex_ok", "mk", 0), ("mutex_bad", "mk", 1),
         ("guard_ok", "mk", 0), ("once_ok", "mk", 0), ("alloc_bad", "mk", 1), ("alloc_ok", "mk", 0), ("seqlock_ok", "mk", 0), ("seqlock_bad", "mk", 1), ("clock_bad", "mk", 1), ("clock_ok", "mk", 0),
         ("tls_reentrant_ok", "mk", 0), ("tls_reentrant_bad", "mk", 1)]

def sh(cmd, **kw):
    return subprocess.run(cmd, stdout=subprocess.PIPE, stderr=subprocess.STDOUT, text=True, **kw)

def main():
    want = set(sys.argv[1:])
    bad = 0
    for name, kind, expect in CASES:
        if want and name not in want:
            continue
        wt = tempfile.mkdtemp(prefix=f"hsim_selftest_{name}_")
        os.rmdir(wt)
        try:
            sh(["git", "-C", "/repo", "worktree", "add", "-q", "--detach", wt, "HEAD"])
            if kind == "patch":
                r = sh(["git", "-C", wt, "apply", os.path.join(VERIF, "seeded", name, "patch.diff")])
            elif kind == "fulltag":
                sh(["git", "-C", wt, "apply", os.path.join(VERIF, "seeded", "C13h", "patch.diff")])
                p = os.path.join(wt, "fixed_lib/include/fixedmath/math.h"); s = open(p).read()
                s = s.replace("      uint32_t tag;\n      uint32_t root;", "      fixed_internal tag;\n      uint32_t root;")
                s = s.replace("entry.tag == hash", "entry.tag == value.v").replace("entry.tag = hash;", "entry.tag = value.v;")
                open(p, "w").write(s)
            else:
                sh([sys.executable, os.path.join(VERIF, "sim/selftest/mk_mutant.py"), name, wt])
            scale = "1" if name in ("D1", "D3", "E1", "H2") else os.environ.get("SELFTEST_SCALE", "0.25")   # table-must-fill cases need the full quick tier
            env = dict(os.environ, VERIF_REPO=wt, VERIF_RUNS_SCALE=scale,
                       VERIF_EVIDENCE_DIR=tempfile.gettempdir())
            if name.endswith("_threads_only"):
                env["HSIM_NO_REENTRANCY"] = "1"      # per-thread cache with the full tag: right in every history and interleaving of threads, wrong only under re-entrancy (DESIGN 9.8)
            r = sh([sys.executable, os.path.join(VERIF, "sim/check.py"), "--tier", "quick"], env=env)
            first = next((l for l in r.stdout.split("\n") if l.startswith("  [")), "")
            ok = (r.returncode == expect) if expect is not None else r.returncode in (0, 1)   # D2: reachable at thorough scale only (DESIGN 8.5)
            bad += 0 if ok else 1
            print(f"{'ok  ' if ok else 'FAIL'} {name:14s} exit={r.returncode} expected={expect}  {first.strip()[:150]}")
            if not ok:
                print(r.stdout[-1500:])
        finally:
            sh(["git", "-C", "/repo", "worktree", "remove", "--force", wt]); sh(["git", "-C", "/repo", "worktree", "prune"])
            for f in os.listdir(os.path.join(VERIF, "sim", "replays")) if os.path.isdir(os.path.join(VERIF, "sim", "replays")) else []:
                os.remove(os.path.join(VERIF, "sim", "replays", f))
    print("selftest:", "all as expected" if not bad else f"{bad} unexpected")
    return 1 if bad else 0

if __name__ == "__main__":
    sys.exit(main())
