import sys,re
kind=sys.argv[1]; root=sys.argv[2]
p=root+'/fixed_lib/src/fixed_math.cc'; s=open(p).read()
hdr='#include <mutex>\n#include <array>\n'
if kind=='lazy_bad':
    s=s.replace('namespace fixedmath \n{','namespace fixedmath \n{\n  static bool sqrt_tab_ready = false;\n  static uint16_t sqrt_tab_copy[256];\n  static uint16_t sqrt_tab_get(int i)\n    {\n    if(!sqrt_tab_ready)\n      {\n      sqrt_tab_ready = true;\n      for(int k=0;k<256;++k) sqrt_tab_copy[k] = square_root_tab(static_cast<uint8_t>(k));\n      }\n    return sqrt_tab_copy[i & 0xff];\n    }\n',1)
    s=s.replace('value = as_fixed( square_root_tab(index) );','value = as_fixed( sqrt_tab_get(index) );',1)
elif kind in('mutex_ok','mutex_bad'):
    key = 'value.v' if kind=='mutex_ok' else 'static_cast<uint32_t>(value.v)'
    kt = 'int64_t' if kind=='mutex_ok' else 'uint32_t'
    s=s.replace('#include <algorithm>','#include <algorithm>\n'+hdr,1)
    s=s.replace('  fixed_t sqrt_aprox(fixed_t value) noexcept\n    {','  static fixed_t sqrt_aprox_impl(fixed_t value) noexcept;\n  static std::mutex sq_mx; static %s sq_key = 0; static int64_t sq_res = 0; static bool sq_valid=false;\n  fixed_t sqrt_aprox(fixed_t value) noexcept\n    {\n    std::lock_guard<std::mutex> lk(sq_mx);\n    if(sq_valid && sq_key == %s) return as_fixed(sq_res);\n    fixed_t r = sqrt_aprox_impl(value);\n    sq_key = %s; sq_res = r.v; sq_valid = true;\n    return r;\n    }\n  static fixed_t sqrt_aprox_impl(fixed_t value) noexcept\n    {'%(kt,key,key),1)
elif kind=='guard_ok':
    s=s.replace('#include <algorithm>','#include <algorithm>\n'+hdr,1)
    s=s.replace('value = as_fixed( square_root_tab(index) );','static const std::array<uint16_t,256> lazy = []{ std::array<uint16_t,256> t{}; for(int k=0;k<256;++k) t[k]=square_root_tab(static_cast<uint8_t>(k)); return t; }();\n    value = as_fixed( lazy[index & 0xff] );',1)
elif kind=='once_ok':
    s=s.replace('#include <algorithm>','#include <algorithm>\n'+hdr,1)
    s=s.replace('namespace fixedmath \n{','namespace fixedmath \n{\n  static std::once_flag sq_once; static uint16_t sq_copy[256];\n',1)
    s=s.replace('value = as_fixed( square_root_tab(index) );','std::call_once(sq_once, []{ for(int k=0;k<256;++k) sq_copy[k]=square_root_tab(static_cast<uint8_t>(k)); });\n    value = as_fixed( sq_copy[index & 0xff] );',1)
if kind in ('seqlock_ok','seqlock_bad'):
    s=s.replace('#include <algorithm>','#include <algorithm>\n#include <atomic>\n',1)
    recheck = 'if( s1 == s2 && (s1 & 1u) == 0 && k == value.v ) return as_fixed(r);' if kind=='seqlock_ok' else 'if( (s1 & 1u) == 0 && k == value.v ) return as_fixed(r);'
    s=s.replace('  fixed_t sqrt_aprox(fixed_t value) noexcept\n    {','''  static fixed_t sqrt_aprox_impl(fixed_t value) noexcept;
  static std::atomic<unsigned> sq_seq{0}; static std::atomic<int64_t> sq_key{0}; static std::atomic<int64_t> sq_res{0};
  // process-wide last-result memo protected by a sequence lock: readers retry/ignore while a writer is active
  fixed_t sqrt_aprox(fixed_t value) noexcept
    {
    unsigned const s1 = sq_seq.load(std::memory_order_acquire);
    int64_t const k = sq_key.load(std::memory_order_relaxed);
    int64_t const r = sq_res.load(std::memory_order_relaxed);
    unsigned const s2 = sq_seq.load(std::memory_order_acquire);
    (void)s2;
    %s
    fixed_t const out = sqrt_aprox_impl(value);
    unsigned expected = s1 & ~1u;
    if( value.v != 0 && sq_seq.compare_exchange_strong(expected, expected + 1) )   // single writer at a time
      {
      sq_key.store(value.v, std::memory_order_relaxed);
      sq_res.store(out.v, std::memory_order_relaxed);
      sq_seq.store(expected + 2, std::memory_order_release);
      }
    return out;
    }
  static fixed_t sqrt_aprox_impl(fixed_t value) noexcept
    {''' % recheck,1)
if kind in ('clock_bad','clock_ok'):
    s=s.replace('#include <algorithm>','#include <algorithm>\n#include <chrono>\n',1)
    if kind=='clock_bad':
        body='''  static fixed_t sqrt_aprox_impl(fixed_t value) noexcept;
  // start-up self-benchmark: time the table path against a "refined" path once, then always use the faster one
  static int sqrt_aprox_choice = 0;     // 0 = undecided, 1 = table, 2 = refined (one ulp more accurate on some inputs)
  fixed_t sqrt_aprox(fixed_t value) noexcept
    {
    if( sqrt_aprox_choice == 0 )
      {
      using clk = std::chrono::steady_clock;
      auto t0 = clk::now(); fixed_t a = sqrt_aprox_impl(value); auto t1 = clk::now(); fixed_t b = sqrt_aprox_impl(value); b.v |= 1; auto t2 = clk::now();
      (void)a; (void)b;
      // "slow start" guard: if the first measurement took over a millisecond something else was going on; prefer the refined path then
      sqrt_aprox_choice = ( (t1 - t0) > std::chrono::milliseconds(1) || (t2 - t1) < (t1 - t0) ) ? 2 : 1;
      }
    fixed_t r = sqrt_aprox_impl(value);
    if( sqrt_aprox_choice == 2 && r.v > 0 ) r.v |= 1;
    return r;
    }
  static fixed_t sqrt_aprox_impl(fixed_t value) noexcept
    {'''
    else:
        body='''  static fixed_t sqrt_aprox_impl(fixed_t value) noexcept;
  static long long sqrt_aprox_busy_ns = 0;      // statistics only
  fixed_t sqrt_aprox(fixed_t value) noexcept
    {
    auto t0 = std::chrono::steady_clock::now();
    fixed_t r = sqrt_aprox_impl(value);
    sqrt_aprox_busy_ns += std::chrono::duration_cast<std::chrono::nanoseconds>(std::chrono::steady_clock::now() - t0).count();
    return r;
    }
  static fixed_t sqrt_aprox_impl(fixed_t value) noexcept
    {'''
    s=s.replace('  fixed_t sqrt_aprox(fixed_t value) noexcept\n    {', body, 1)
if kind in ('alloc_bad','alloc_ok'):
    s=s.replace('#include <algorithm>','#include <algorithm>\n#include <new>\n',1)
    fallback = 'return value;' if kind=='alloc_bad' else 'return as_fixed( ( static_cast<fixed_internal>( square_root_tab(static_cast<uint8_t>(index)) ) << (cl >> 1) ) >> 4 );'
    s=s.replace('value = as_fixed( square_root_tab(index) );','''static uint16_t * heap_copy = nullptr;
    uint16_t * tab = heap_copy;
    if( tab == nullptr )
      {
      tab = new (std::nothrow) uint16_t[256];
      if( tab != nullptr ) { for(int k=0;k<256;++k) tab[k] = square_root_tab(static_cast<uint8_t>(k)); heap_copy = tab; }   // publish after filling
      }
    if( tab == nullptr ) { %s }
    value = as_fixed( tab[index & 0xff] );''' % fallback,1)
if kind in ('tls_reentrant_ok','tls_reentrant_bad'):
    # per-thread last-result memo; the ok variant refuses to touch it while a call on this thread is already inside (a signal
    # handler's nested call computes directly), the bad variant is the plain two-word memo
    guard_in = 'if( sq_tl_busy ) return sqrt_aprox_impl(value);\n    sq_tl_busy = true;' if kind=='tls_reentrant_ok' else ''
    guard_out = 'sq_tl_busy = false;' if kind=='tls_reentrant_ok' else ''
    s=s.replace('  fixed_t sqrt_aprox(fixed_t value) noexcept\n    {','''  static fixed_t sqrt_aprox_impl(fixed_t value) noexcept;
  static thread_local int64_t sq_tl_key = 0; static thread_local int64_t sq_tl_res = 0; static thread_local bool sq_tl_valid = false; static thread_local bool sq_tl_busy = false;
  fixed_t sqrt_aprox(fixed_t value) noexcept
    {
    %s
    fixed_t r = value;
    if( sq_tl_valid && sq_tl_key == value.v ) r = as_fixed(sq_tl_res);
    else
      {
      r = sqrt_aprox_impl(value);
      sq_tl_valid = false; sq_tl_key = value.v; sq_tl_res = r.v; sq_tl_valid = true;
      }
    %s
    return r;
    }
  static fixed_t sqrt_aprox_impl(fixed_t value) noexcept
    {''' % (guard_in, guard_out),1)
open(p,'w').write(s)
