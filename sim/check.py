#!/usr/bin/env python3
"""Driver for the history/interleaving simulation (DESIGN.md section 9).

  python3 sim/check.py --tier quick|thorough     decide the C08 history-independence slice
  python3 sim/check.py --replay <file>           rebuild and re-execute one replay file
  python3 sim/check.py --determinism             prove the simulator is a function of its seed

Contract (MANIFEST): exit 0 = held on everything explored; exit 1 + a line
"VIOLATION property=C08 replay=<path>" = a schedule on which a call's run-time bits depend on
history; exit 2 = the harness itself could not run or could not reproduce its own finding
(never reported as a violation).  Rebuilds from the current working tree of /repo
(VERIF_REPO overrides, for scratch worktrees).  Writes evidence/C08.json on every run.
"""
import argparse, json, os, shutil, subprocess, sys, time
from concurrent.futures import ThreadPoolExecutor

HERE = os.path.dirname(os.path.abspath(__file__))
VERIF = os.path.dirname(HERE)
REPO = os.environ.get("VERIF_REPO", "/repo")
BUILD = os.path.join(VERIF, "build", "hsim")
PROPERTY = "C08"
EVIDENCE = os.path.join(VERIF, "evidence", PROPERTY + ".json")
REPLAYS = os.path.join(VERIF, "sim", "replays")
KNOWN = os.path.join(VERIF, "known_findings.json")

CELLS = {
    "quick": [("g++", "-O2", "-std=c++20", [])],
    "thorough": [("g++", "-O2", "-std=c++20", []),
                 ("clang++", "-O2", "-std=c++17", []),
                 ("g++", "-O0", "-std=c++17", ["-DFIXEDMATH_ENABLE_SQRT_ABACUS_ALGO"]),
                 ("clang++", "-O1", "-std=c++20", [])],
}
RUNS_PER_WORKER = {"quick": 3000, "thorough": 60000}
WORKERS = min(16, os.cpu_count() or 4)


def cell_name(c):
    return " ".join([c[0], c[1], c[2]] + c[3])


def build(cell, idx):
    os.makedirs(BUILD, exist_ok=True)
    out = os.path.join(BUILD, f"hsim_{idx}")
    cmd = [cell[0], cell[2], cell[1], "-w", "-pthread", f'-DHSIM_BUILD_CELL="{cell_name(cell)}"'] + cell[3] + [
        "-I" + os.path.join(REPO, "fixed_lib/include"), os.path.join(HERE, "hsim.cc"),
        os.path.join(REPO, "fixed_lib/src/fixed_math.cc"), "-o", out]
    r = subprocess.run(cmd, stdout=subprocess.PIPE, stderr=subprocess.PIPE, text=True)
    if r.returncode != 0:
        first = next((l for l in r.stderr.split("\n") if "error" in l), r.stderr[:400])
        print(f"check.py: cannot build the simulator for [{cell_name(cell)}]: {first.strip()}", file=sys.stderr)
        print("check.py: harness failure (public API changed? update sim/hsim.cc); this is not a verdict", file=sys.stderr)
        sys.exit(2)
    return out


def scan(binary, seed0, count, hashfile):
    r = subprocess.run([binary, "--scan", str(seed0), str(count), "--hashes", hashfile, "--max-findings", "2"],
                       stdout=subprocess.PIPE, stderr=subprocess.PIPE, text=True)
    found, stats, unstable = [], None, []
    for line in r.stdout.split("\n"):
        if line.startswith("FOUND "):
            found.append(json.loads(line[6:]))
        elif line.startswith("STATS "):
            stats = json.loads(line[6:])
        elif line.startswith("UNSTABLE "):
            unstable.append(json.loads(line[9:]))
    return r.returncode, found, stats, unstable, r.stderr


def exec_schedule(binary, clients, steps):
    text = f"clients {clients}\n" + "".join(f"{s['client']} {s['op']} {s['a'][2:]} {s['b'][2:]}\n" for s in steps)
    r = subprocess.run([binary, "--exec"], input=text, stdout=subprocess.PIPE, stderr=subprocess.PIPE, text=True)
    for line in r.stdout.split("\n"):
        if line.startswith("EXEC "):
            return json.loads(line[5:])
    return None


def describe(f):
    def call(s):
        return f"c{s['client']}:{s['op']}({s['a']},{s['b']})"
    return " ; ".join(call(s) for s in f["steps"])


def finding_key(f):
    return {"property": PROPERTY, "victim_op": f["steps"][-1]["op"], "polluting_ops": sorted({s["op"] for s in f["steps"][:-1]})}


def load_known():
    if not os.path.exists(KNOWN):
        return []
    try:
        return [k for k in json.load(open(KNOWN)).get("known", []) if k.get("property") == PROPERTY]
    except Exception:
        return []


def write_evidence(tier, seed, cov, wall, violations, assumptions):
    os.makedirs(os.path.dirname(EVIDENCE), exist_ok=True)
    ev = {"property_id": PROPERTY, "tier": tier, "seed": seed, "level": "exploration", "coverage": cov,
          "assumptions": assumptions, "wall_s": round(wall, 2), "violations": violations}
    with open(EVIDENCE, "w") as f:
        json.dump(ev, f, indent=1)


def run_check(tier, seed):
    t0 = time.time()
    cells = CELLS[tier]
    per = RUNS_PER_WORKER[tier]
    if os.environ.get("VERIF_RUNS_PER_WORKER"):
        per = int(os.environ["VERIF_RUNS_PER_WORKER"])
    with ThreadPoolExecutor(max_workers=len(cells)) as ex:
        bins = list(ex.map(lambda ic: build(ic[1], ic[0]), enumerate(cells)))
    t_build = time.time() - t0
    base = (seed % 1000003) * 10**10
    jobs = []
    for ci, b in enumerate(bins):
        for w in range(WORKERS):
            jobs.append((ci, b, base + ci * 10**9 + w * per, per, os.path.join(BUILD, f"hashes_{ci}_{w}.bin")))
    t1 = time.time()
    with ThreadPoolExecutor(max_workers=WORKERS) as ex:
        results = list(ex.map(lambda j: scan(j[1], j[2], j[3], j[4]), jobs))
    t_scan = time.time() - t1
    total = dict(runs=0, calls=0, forks=0, nontrivial_runs=0, isolation_checks=0, ab_disagreements=0, signals_caught=0,
                 items_lost=0)
    per_op, clients_hist = {}, [0, 0, 0, 0]
    alias_same, alias_cross, adjacency = {}, {}, set()
    per_cell = {}
    found, unstable, samples = [], [], []
    for j, (rc, fnd, st, uns, err) in zip(jobs, results):
        if st is None:
            print(f"check.py: worker for seed0={j[2]} on [{cell_name(cells[j[0]])}] produced no STATS (rc={rc}): {err[:300]}", file=sys.stderr)
            sys.exit(2)
        for k in total:
            total[k] += st[k]
        for k, v in st["per_op"].items():
            per_op[k] = per_op.get(k, 0) + v
        for i in range(4):
            clients_hist[i] += st["clients_hist"][i]
        for k, v in st["alias_same_client"].items():
            alias_same[k] = alias_same.get(k, 0) + v
        for k, v in st["alias_cross_client"].items():
            alias_cross[k] = alias_cross.get(k, 0) + v
        adjacency.update(st["adjacency_keys"])
        pc = per_cell.setdefault(cell_name(cells[j[0]]), dict(runs=0, calls=0, digest=0))
        pc["runs"] += st["runs"]; pc["calls"] += st["calls"]
        pc["digest"] = (pc["digest"] + int(st["digest"], 16)) % 2**64
        if st.get("sample") and len(samples) < 3:
            samples.append(dict(build=st["build"], **st["sample"]))
        for f in fnd:
            found.append((j[1], f))
        unstable += uns
    for pc in per_cell.values():
        pc["digest"] = "0x%016x" % pc["digest"]
    merge = subprocess.run([bins[0], "--merge"] + [j[4] for j in jobs], stdout=subprocess.PIPE, text=True).stdout
    distinct = json.loads(merge.split("MERGE ", 1)[1])["distinct"] if "MERGE " in merge else 0
    for j in jobs:
        if os.path.exists(j[4]):
            os.remove(j[4])
    ops_total = len(per_op)
    ops_hit = sum(1 for v in per_op.values() if v > 0)
    never = sorted(k for k, v in per_op.items() if v == 0)

    # ---- gate every finding: it must reproduce, identically, twice, in fresh processes
    known = load_known()
    violations, known_lines, replay_paths = 0, [], []
    seen_keys = []
    for binary, f in found:
        key = finding_key(f)
        if key in seen_keys:
            continue
        seen_keys.append(key)
        e1 = exec_schedule(binary, f["clients"], f["steps"])
        e2 = exec_schedule(binary, f["clients"], f["steps"])
        ok = (e1 and e2 and e1["differs"] and e2["differs"] and e1["observed"] == e2["observed"] == f["observed"]
              and e1["isolated"] == e2["isolated"] == f["isolated"])
        if not ok:
            print(f"check.py: finding at seed {f['seed']} did not reproduce identically in fresh processes "
                  f"(recorded {f['observed']}, replays {e1 and e1['observed']} / {e2 and e2['observed']}); "
                  "harness fault, not reported as a violation", file=sys.stderr)
            write_evidence(tier, seed, dict(evaluations=max(1, total["runs"]), distinct_nontrivial=max(2, distinct),
                                            rule="aborted: unreproducible finding", samples=[f]), time.time() - t0, 0,
                           ["harness fault: finding not reproducible"])
            sys.exit(2)
        if any(k.get("victim_op") == key["victim_op"] and sorted(k.get("polluting_ops", [])) == key["polluting_ops"] for k in known):
            known_lines.append(f"KNOWN-FINDING: property={PROPERTY} {key['victim_op']} depends on earlier {','.join(key['polluting_ops'])}")
            continue
        os.makedirs(REPLAYS, exist_ok=True)
        path = os.path.join(REPLAYS, f"{PROPERTY}-{f['seed']}.json")
        rec = dict(property=PROPERTY, what="run-time result of the last step depends on the calls before it",
                   seed=f["seed"], verif_seed=seed, build=f["build"], clients=f["clients"], steps=f["steps"],
                   isolated=f["isolated"], observed=f["observed"], failing_order=f["failing_order"],
                   original_history_len=f["original_history_len"], minimise_tests=f["minimise_tests"],
                   replay_cmd=f"python3 sim/check.py --replay {os.path.relpath(path, VERIF)}")
        with open(path, "w") as fh:
            json.dump(rec, fh, indent=1)
        replay_paths.append((path, f))
        violations += 1

    wall = time.time() - t0
    cov = {
        "evaluations": total["runs"],
        "distinct_nontrivial": distinct,
        "rule": ("one evaluation = one seeded run: a plan of 6-45 public calls issued by 1-4 simulated caller threads, executed from "
                 "pristine library state in plan order and again in reverse global order (two forked children), every call's result "
                 "bits compared between the two histories, plus one seeded call per run (and every disagreeing call) compared with "
                 "its isolated execution in a fresh process. A run is non-trivial when its plan contains at least one call whose "
                 "argument was built to alias an earlier call's argument (identical, same low 32/16/48 bits, same high bits, "
                 "xor-fold-equal, one bit flipped, negated, +k*pi, +k*2pi); distinct = distinct 64-bit hashes of "
                 "(clients, per step: client, operation, argument bits) over all non-trivial plans, merged across workers."),
        "samples": samples,
        "runs_per_hour": int(total["runs"] / max(t_scan, 1e-9) * 3600),
        "seeds": {"verif_seed": seed, "first_run_seed": base, "runs_per_worker": per, "workers": WORKERS,
                  "layout": "run seed = (VERIF_SEED mod 1000003)*1e10 + cell*1e9 + worker*runs_per_worker + i"},
        "library_calls_executed": total["calls"],
        "histories_executed": 2 * total["runs"],
        "isolation_reference_executions": total["isolation_checks"],
        "processes_forked": total["forks"],
        "simulated_time": "not applicable: the library has no clock, timer or deadline; progress is counted in calls",
        "build_cells": per_cell,
        "clients_per_run_histogram": {"1": clients_hist[0], "2": clients_hist[1], "3": clients_hist[2], "4": clients_hist[3]},
        "operations_in_catalogue": ops_total, "operations_exercised": ops_hit, "operations_never_called": never,
        "calls_per_operation_top": dict(sorted(per_op.items(), key=lambda kv: -kv[1])[:25]),
        "aliasing_adjacencies_same_client": alias_same,
        "aliasing_adjacencies_cross_client": alias_cross,
        "distinct_adjacency_classes": len(adjacency),
        "distinct_adjacency_classes_rule": "distinct (later op, earlier op, alias kind, same/cross client) tuples reached",
        "history_disagreements_seen": total["ab_disagreements"],
        "synchronous_signals_caught_identically_in_both_histories": total["signals_caught"],
        "items_lost_to_child_death": total["items_lost"],
        "fault_kinds_injected": {},
        "fault_kinds_note": ("none, deliberately: the library calls nothing that can fail (audit/seam_audit.py S2: no allocation, I/O "
                             "or system call), so the only dimension searched is the schedule/history"),
        "interleaving_granularity": "whole public calls; preemption inside a call is not explored (DESIGN 9.3)",
        "stateless_tree_note": ("on a tree where audit/seam_audit.py reports no seam, every schedule is observationally equivalent; the "
                                "counts above then measure the search performed, not distinct behaviours reached"),
        "components": {"real": ["fixed_lib/include/fixedmath/* (all headers)", "fixed_lib/src/fixed_math.cc + the four tables",
                                "libm sqrt", "caller threads (real pthreads, released one call at a time)"], "stubbed": []},
        "unstable_reports": unstable,
        "timing_s": {"build": round(t_build, 2), "scan": round(t_scan, 2)},
    }
    assumptions = [
        "decides only: run-time result bits of a public call do not depend on earlier calls or on the order in which callers' calls "
        "reach the library (history dependence => C08 false). Blind to input-only and configuration-only defects by construction.",
        "results are compared only within one binary; cross-compiler / constexpr-vs-run-time equality on a given input is not checked",
        "fork() gives the child pristine library state (the zygote never calls the library)",
        "known input-only traps of the unchanged tree (INT64_MIN / -1 patterns, negative table angles) are excluded from the workload",
    ]
    write_evidence(tier, seed, cov, wall, violations, assumptions)
    print(f"hsim[{PROPERTY}] tier={tier} seed={seed}: {total['runs']} runs ({2 * total['runs']} histories, {total['calls']} calls, "
          f"{len(cells)} build cell(s)) in {wall:.1f}s; {distinct} distinct non-trivial schedules; "
          f"{ops_hit}/{ops_total} operations; disagreements={total['ab_disagreements']}")
    for l in known_lines:
        print(l)
    for path, f in replay_paths:
        print(f"  schedule: {describe(f)}  isolated={f['isolated']['bits']} observed={f['observed']['bits']}")
        print(f"VIOLATION property={PROPERTY} replay={path}")
    return 1 if violations else 0


def run_replay(path):
    rec = json.load(open(path))
    cell = None
    for c in CELLS["thorough"]:
        if cell_name(c) == rec.get("build"):
            cell = c
    if cell is None:
        cell = CELLS["quick"][0]
    b = build(cell, 90)
    e = exec_schedule(b, rec["clients"], rec["steps"])
    if e is None:
        print("check.py: replay could not execute", file=sys.stderr)
        return 2
    print(f"replay [{cell_name(cell)}]: " + " ; ".join(f"c{s['client']}:{s['op']}({s['a']},{s['b']})" for s in rec["steps"]))
    print(f"  isolated={e['isolated']}  observed={e['observed']}  (recorded isolated={rec['isolated']} observed={rec['observed']})")
    if e["differs"]:
        same = e["observed"] == rec["observed"] and e["isolated"] == rec["isolated"]
        print(f"  reproduces: the last call's result depends on its history{'' if same else ' (different bits than recorded)'}")
        print(f"VIOLATION property={PROPERTY} replay={path}")
        return 1
    print("  does not reproduce on this tree: the last call returns its isolated bits")
    return 0


def run_determinism():
    """Same seeds, different worker splits, fresh processes: per-cell digests must be identical."""
    cell = CELLS["quick"][0]
    b = build(cell, 0)
    base, n = 777 * 10**10, 6000
    digests = []
    for workers in (1, 3, 8, 16):
        per = n // workers
        spans = [(base + w * per, per if w < workers - 1 else n - per * (workers - 1)) for w in range(workers)]
        with ThreadPoolExecutor(max_workers=workers) as ex:
            res = list(ex.map(lambda s: scan(b, s[0], s[1], os.devnull), spans))
        d = sum(int(r[2]["digest"], 16) for r in res) % 2**64
        digests.append(d)
        print(f"  workers={workers:2d}: digest=0x{d:016x} runs={sum(r[2]['runs'] for r in res)}")
    ok = len(set(digests)) == 1
    print("determinism:", "OK (identical digests)" if ok else "FAILED")
    return 0 if ok else 2


def main():
    ap = argparse.ArgumentParser()
    ap.add_argument("--tier", default=os.environ.get("VERIF_TIER", "quick"), choices=["quick", "thorough"])
    ap.add_argument("--replay")
    ap.add_argument("--determinism", action="store_true")
    a = ap.parse_args()
    seed = int(os.environ.get("VERIF_SEED", "1"))
    if a.replay:
        return run_replay(a.replay)
    if a.determinism:
        return run_determinism()
    return run_check(a.tier, seed)


if __name__ == "__main__":
    sys.exit(main())
