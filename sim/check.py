#!/usr/bin/env python3
"""Driver for the history/interleaving simulation (DESIGN.md section 9).

  python3 sim/check.py --tier quick|thorough     decide the C08 history-independence slice
  python3 sim/check.py --replay <file>           rebuild and re-execute one replay file
  python3 sim/check.py --determinism             prove the simulator is a function of its seed

Contract (MANIFEST): exit 0 = held on everything explored; exit 1 + a line
"VIOLATION property=C08 replay=<path>" = a schedule on which a call's run-time bits depend on
history or on interleaving; exit 2 = the harness itself could not run or could not reproduce its
own finding (never reported as a violation).  Rebuilds from the current working tree of /repo
(VERIF_REPO overrides, for scratch worktrees).  Writes evidence/C08.json on every run.
"""
import argparse, json, os, subprocess, sys, time
from concurrent.futures import ThreadPoolExecutor

HERE = os.path.dirname(os.path.abspath(__file__))
VERIF = os.path.dirname(HERE)
REPO = os.environ.get("VERIF_REPO", "/repo")
BUILD = os.path.join(VERIF, "build", "hsim")
PROPERTY = "C08"
EVIDENCE = os.path.join(os.environ.get("VERIF_EVIDENCE_DIR", os.path.join(VERIF, "evidence")), PROPERTY + ".json")
REPLAYS = os.path.join(VERIF, "sim", "replays")
KNOWN = os.path.join(VERIF, "known_findings.json")
WORKERS = min(16, os.cpu_count() or 4)

# (compiler, -O, -std, extra defines, instrumented-with-yield-points?)
G20 = ("g++", "-O2", "-std=c++20", [])
C17 = ("clang++", "-O2", "-std=c++17", [])
G17A = ("g++", "-O0", "-std=c++17", ["-DFIXEDMATH_ENABLE_SQRT_ABACUS_ALGO"])
C20 = ("clang++", "-O1", "-std=c++20", [])
TIERS = {
    # (cell, mode, runs per worker)
    "quick": [(G20, "serial", 3000), (G20, "fine", 1000)],
    "thorough": [(G20, "serial", 40000), (C17, "serial", 40000), (G17A, "serial", 40000), (C20, "serial", 40000),
                 (G20, "fine", 16000), (C17, "fine", 16000), (G17A, "fine", 16000)],
}


def cell_name(c, mode):
    return " ".join([c[0], c[1], c[2]] + c[3]) + (" +yield" if mode == "fine" else "")


def sh(cmd):
    return subprocess.run(cmd, stdout=subprocess.PIPE, stderr=subprocess.PIPE, text=True)


def build(cell, mode, tag):
    """plain: everything uninstrumented.  fine: ops.cc + /repo's fixed_math.cc compiled with -fsanitize=thread
    (compile only) and linked against sim/tsan_shim.cc instead of the TSan runtime."""
    os.makedirs(BUILD, exist_ok=True)
    out = os.path.join(BUILD, f"hsim_{tag}")
    inc = "-I" + os.path.join(REPO, "fixed_lib/include")
    lib = os.path.join(REPO, "fixed_lib/src/fixed_math.cc")
    name = f'-DHSIM_BUILD_CELL="{cell_name(cell, mode)}"'
    base = [cell[0], cell[2], cell[1], "-w", "-pthread"] + cell[3]
    if mode == "serial":
        cmds = [base + [name, inc, "-I" + HERE, os.path.join(HERE, "hsim.cc"), os.path.join(HERE, "early.cc"), os.path.join(HERE, "ops.cc"), lib, "-o", out]]
    else:
        o1, o2 = out + "_ops.o", out + "_lib.o"
        cmds = [base + ["-fsanitize=thread", inc, "-I" + HERE, "-c", os.path.join(HERE, "ops.cc"), "-o", o1],
                base + ["-fsanitize=thread", inc, "-c", lib, "-o", o2],
                [cell[0], cell[2], "-O2", "-w", "-pthread", name, "-DHSIM_INSTRUMENTED=1", "-I" + HERE, os.path.join(HERE, "hsim.cc"),
                 os.path.join(HERE, "early.cc"), os.path.join(HERE, "tsan_shim.cc"), o1, o2, "-ldl", "-o", out]]
    for cmd in cmds:
        r = sh(cmd)
        if r.returncode != 0:
            first = next((l for l in r.stderr.split("\n") if "error" in l or "undefined" in l), r.stderr[:400])
            print(f"check.py: cannot build the simulator for [{cell_name(cell, mode)}]: {first.strip()}", file=sys.stderr)
            print("check.py: harness failure (public API changed? update sim/ops.cc); this is not a verdict", file=sys.stderr)
            sys.exit(2)
    return out


def scan(binary, mode, seed0, count, hashfile):
    r = sh([binary, "--scan", str(seed0), str(count), "--mode", mode, "--hashes", hashfile, "--max-findings", "2"])
    found, stats, unstable = [], None, []
    for line in r.stdout.split("\n"):
        if line.startswith("FOUND "):
            found.append(json.loads(line[6:]))
        elif line.startswith("STATS "):
            stats = json.loads(line[6:])
        elif line.startswith("UNSTABLE "):
            unstable.append(json.loads(line[9:]))
    return r.returncode, found, stats, unstable, r.stderr


def schedule_text(f):
    t = [f"clients {f['clients']}"]
    if f.get("clock"):
        t.append(f"clock {f['clock']['policy']} {f['clock']['seed']}")
    for seg in f["segments"]:
        for c in seg.get("respawn_before", []):
            t.append(f"respawn {c}")
        if seg.get("phase"):
            t.append("phase " + seg["phase"][0])
        t.append("seg")
        for c in seg["calls"]:
            if c.get("nested"):
                t.append(f"nest {c['client']} {c['op']} {c['a'][2:]} {c['b'][2:]}")
                continue
            t.append(f"call {c['client']} {c['op']} {c['a'][2:]} {c['b'][2:]}" + (f" {c['fail_alloc']}" if c.get("fail_alloc") else ""))
        for w in seg.get("script", []):
            t.append(f"sw {w['from']} {w['at_yield']} {w['to']}")
        if seg.get("repeat", 1) > 1:
            t.append(f"rep {seg['repeat']}")
    t.append(f"victim {f['victim']['segment']} {f['victim']['call']}")
    return "\n".join(t) + "\n"


def exec_schedule(binary, f):
    r = subprocess.run([binary, "--exec"], input=schedule_text(f), stdout=subprocess.PIPE, stderr=subprocess.PIPE, text=True)
    for line in r.stdout.split("\n"):
        if line.startswith("EXEC "):
            return json.loads(line[5:])
    return None


def describe(f):
    parts = []
    for seg in f["segments"]:
        calls = " || ".join(f"c{c['client']}:{c['op']}({c['a']}{',' + c['b'] if int(c['b'], 16) else ''})" +
                            (f"!alloc#{c['fail_alloc']}fails" if c.get("fail_alloc") else "") for c in seg["calls"] if not c.get("nested"))
        nests = [w for w in seg.get("script", []) if w["to"] == 254]
        for k, c in enumerate(x for x in seg["calls"] if x.get("nested")):
            at = f"@{nests[k]['at_yield']}" if k < len(nests) else ""
            calls += f" <signal{at}: c{c['client']}:{c['op']}({c['a']}{',' + c['b'] if int(c['b'], 16) else ''})>"
        sw = [w for w in seg.get("script", []) if w["from"] != 255 and w["at_yield"] >= 0 and w["to"] != 254]
        if seg.get("repeat", 1) > 1:
            calls += f" x{seg['repeat']}"
        if seg.get("phase"):
            calls = f"<{seg['phase']}> " + calls
        if seg.get("respawn_before"):
            calls = "restart[" + ",".join(f"c{c}" for c in seg["respawn_before"]) + "] " + calls
        if len([c for c in seg["calls"] if not c.get("nested")]) > 1:
            calls = "{ " + calls + " }" + (" preempt[" + ", ".join(f"c{w['from']}@{w['at_yield']}->c{w['to']}" for w in sw) + "]" if sw else "")
        parts.append(calls)
    v = f["segments"][f["victim"]["segment"]]["calls"][f["victim"]["call"]]
    if len(parts) > 12:
        parts = parts[:5] + [f"... {len(parts) - 10} more steps ..."] + parts[-5:]
    return " ; ".join(parts) + f"   victim=c{v['client']}:{v['op']}"


def finding_key(f):
    v = f["segments"][f["victim"]["segment"]]["calls"][f["victim"]["call"]]
    others = sorted({c["op"] for s in f["segments"] for c in s["calls"] if c is not v})
    return {"property": PROPERTY, "mode": f["mode"], "victim_op": v["op"], "other_ops": others}


def load_known():
    if not os.path.exists(KNOWN):
        return []
    try:
        return [k for k in json.load(open(KNOWN)).get("known", []) if k.get("property") == PROPERTY]
    except Exception:
        return []


def write_evidence(tier, seed, cov, wall, violations, assumptions):
    os.makedirs(os.path.dirname(EVIDENCE), exist_ok=True)
    ev = {"property_id": PROPERTY, "tier": tier, "seed": seed, "level": "exploration", "coverage": cov,
          "assumptions": assumptions, "wall_s": round(wall, 2), "violations": violations}
    with open(EVIDENCE, "w") as f:
        json.dump(ev, f, indent=1)


SUMMED = ["runs", "calls", "forks", "nontrivial_runs", "isolation_checks", "disagreements", "signals_caught", "items_lost",
          "hung_children", "children_refused_threads", "unstable", "fine_executions", "concurrent_segments", "concurrent_calls", "yield_points",
          "preemptions", "baton_handoffs", "long_runs", "very_long_runs", "hot_loop_runs", "crowd_runs", "churn_runs", "planned_respawns", "threads_started",
          "lifecycle_probes", "early_calls", "late_calls", "clock_queries_inside_library_calls", "simulated_ns", "allocations_inside_library_calls", "allocation_failures_injected", "plans_with_allocations", "fault_injecting_executions",
          "access_records", "nonstack_writes_observed", "conflicting_call_pairs", "plans_with_conflicts", "directed_executions",
          "alias_sweep_runs", "nested_calls_delivered", "nest_directed_executions", "same_caller_conflict_pairs", "handler_self_deadlocks"]


def run_check(tier, seed):
    t0 = time.time()
    plan = TIERS[tier]
    scale = float(os.environ.get("VERIF_RUNS_SCALE", "1"))
    with ThreadPoolExecutor(max_workers=len(plan)) as ex:
        bins = list(ex.map(lambda ip: build(ip[1][0], ip[1][1], f"{ip[0]}_{ip[1][1]}"), enumerate(plan)))
    t_build = time.time() - t0
    base = (seed % 1000003) * 10**10
    jobs = []
    for ci, ((cell, mode, per), b) in enumerate(zip(plan, bins)):
        per = max(1, int(per * scale))
        for w in range(WORKERS):
            jobs.append(dict(ci=ci, cell=cell_name(cell, mode), mode=mode, bin=b, seed0=base + ci * 10**9 + w * per, count=per,
                             hashes=os.path.join(BUILD, f"hashes_{ci}_{w}.bin")))
    t1 = time.time()
    with ThreadPoolExecutor(max_workers=WORKERS) as ex:
        results = list(ex.map(lambda j: scan(j["bin"], j["mode"], j["seed0"], j["count"], j["hashes"]), jobs))
    t_scan = time.time() - t1
    total = {k: 0 for k in SUMMED}
    by_mode = {"serial": {k: 0 for k in SUMMED}, "fine": {k: 0 for k in SUMMED}}
    per_op, clients_hist = {}, [0] * 8
    alias_same, alias_cross, adjacency = {}, {}, set()
    per_cell = {}
    found, unstable, samples = [], [], []
    max_threads = max_len = clients_hist_crowd = 0
    for j, (rc, fnd, st, uns, err) in zip(jobs, results):
        if st is None:
            print(f"check.py: worker seed0={j['seed0']} on [{j['cell']}] produced no STATS (rc={rc}): {err[:300]}", file=sys.stderr)
            sys.exit(2)
        for k in SUMMED:
            total[k] += st[k]; by_mode[j["mode"]][k] += st[k]
        for k, v in st["per_op"].items():
            per_op[k] = per_op.get(k, 0) + v
        for i in range(8):
            clients_hist[i] += st["clients_hist"][i]
        clients_hist_crowd += st["crowd_runs"]
        max_threads = max(max_threads, st["max_threads_in_one_execution"]); max_len = max(max_len, st["max_plan_len"])
        for k, v in st["alias_same_client"].items():
            alias_same[k] = alias_same.get(k, 0) + v
        for k, v in st["alias_cross_client"].items():
            alias_cross[k] = alias_cross.get(k, 0) + v
        adjacency.update(st["adjacency_keys"])
        pc = per_cell.setdefault(j["cell"], dict(runs=0, calls=0, digest=0))
        pc["runs"] += st["runs"]; pc["calls"] += st["calls"]
        pc["digest"] = (pc["digest"] + int(st["digest"], 16)) % 2**64
        if st.get("sample") and len(samples) < 2:
            samples.append(dict(build=st["build"], mode=st["mode"], **st["sample"]))
        for f in fnd:
            found.append((j["bin"], f))
        unstable += uns
    for pc in per_cell.values():
        pc["digest"] = "0x%016x" % pc["digest"]

    def merged(mode):
        files = [j["hashes"] for j in jobs if j["mode"] == mode]
        if not files:
            return 0
        out = sh([bins[0], "--merge"] + files).stdout
        return json.loads(out.split("MERGE ", 1)[1])["distinct"] if "MERGE " in out else 0
    distinct_serial, distinct_fine = merged("serial"), merged("fine")
    for j in jobs:
        if os.path.exists(j["hashes"]):
            os.remove(j["hashes"])
    ops_total = len(per_op)
    ops_hit = sum(1 for v in per_op.values() if v > 0)
    never = sorted(k for k, v in per_op.items() if v == 0)

    # ---- gate every finding: it must reproduce, identically, twice, in fresh processes
    known = load_known()
    violations, known_lines, replay_paths, seen_keys = 0, [], [], []
    for binary, f in found:
        key = finding_key(f)
        if key in seen_keys:
            continue
        seen_keys.append(key)
        e1, e2 = exec_schedule(binary, f), exec_schedule(binary, f)
        ok = (e1 and e2 and e1["differs"] and e2["differs"] and e1["observed"] == e2["observed"] == f["observed"]
              and e1["isolated"] == e2["isolated"] == f["isolated"])
        if not ok:
            print(f"check.py: finding at seed {f['seed']} did not reproduce identically in fresh processes "
                  f"(recorded {f['observed']}, replays {e1 and e1['observed']} / {e2 and e2['observed']}); "
                  "harness fault, not reported as a violation", file=sys.stderr)
            write_evidence(tier, seed, dict(evaluations=max(1, total["runs"]), distinct_nontrivial=max(2, distinct_serial + distinct_fine),
                                            rule="aborted: unreproducible finding", samples=[f]), time.time() - t0, 0,
                           ["harness fault: finding not reproducible"])
            sys.exit(2)
        if any(k.get("victim_op") == key["victim_op"] and k.get("mode", key["mode"]) == key["mode"]
               and sorted(k.get("other_ops", [])) == key["other_ops"] for k in known):
            known_lines.append(f"KNOWN-FINDING: property={PROPERTY} {key['victim_op']} depends on concurrent/earlier {','.join(key['other_ops'])}")
            continue
        os.makedirs(REPLAYS, exist_ok=True)
        path = os.path.join(REPLAYS, f"{PROPERTY}-{f['mode']}-{f['seed']}.json")
        rec = dict(property=PROPERTY,
                   what=("run-time result of the victim call depends on " +
                         ("where it (or a co-running call) is preempted while another caller is inside the library" if f["mode"] == "fine"
                          else "the phase of the process life-cycle in which the library is called (before its initialisers / after its destructors)" if f["mode"] == "lifecycle"
                          else "an allocation failure injected into an earlier or the same call (it returned normally, with other bits)" if f["mode"] == "fault"
                          else "the calls made before it")),
                   verif_seed=seed, replay_cmd=f"python3 sim/check.py --replay {os.path.relpath(path, VERIF)}", **f)
        with open(path, "w") as fh:
            json.dump(rec, fh, indent=1)
        replay_paths.append((path, f))
        violations += 1

    wall = time.time() - t0
    cov = {
        "evaluations": total["runs"] + total["fine_executions"],
        "distinct_nontrivial": distinct_serial + distinct_fine,
        "rule": ("serial mode: one evaluation = one seeded run: a plan of 6-45 public calls issued by 1-4 simulated caller threads, executed "
                 "from pristine library state in plan order and again in reverse global order (two forked children); every call's result "
                 "bits compared between the two histories, plus one seeded call per run (and every disagreeing call) compared with its "
                 "isolated execution in a fresh process. fine mode: one evaluation = one execution of a seeded plan (2-4 callers) in which "
                 "adjacent calls of distinct callers are in flight together and the seeded scheduler preempts the running caller at "
                 "compiler-inserted yield points (every non-stack memory access of library code); compared call by call with the "
                 "whole-call execution of the same plan, disagreements confirmed against isolation. Non-trivial: serial - the plan "
                 "contains a call whose argument was built to alias an earlier call's argument (identical, same low 32/16/48 bits, same "
                 "high bits, xor-fold-equal, one bit flipped, negated, +k*pi, +k*2pi); fine - the execution contains at least one "
                 "concurrent segment. distinct = distinct 64-bit hashes of (clients, per step: client, operation, argument bits) for "
                 "serial plans, and of (plan, segment shapes, every scheduling decision) for fine executions, merged across workers."),
        "samples": samples,
        "distinct_nontrivial_serial_plans": distinct_serial,
        "distinct_fine_executions_by_decision_trace": distinct_fine,
        "runs_per_hour": int(total["runs"] / max(t_scan, 1e-9) * 3600),
        "executions_per_hour": int((2 * by_mode["serial"]["runs"] + by_mode["fine"]["runs"] + total["fine_executions"]) / max(t_scan, 1e-9) * 3600),
        "seeds": {"verif_seed": seed, "first_run_seed": base, "workers": WORKERS,
                  "layout": "run seed = (VERIF_SEED mod 1000003)*1e10 + job*1e9 + worker*runs_per_worker + i; jobs in tier order",
                  "jobs": [dict(cell=cell_name(c, m), mode=m, runs_per_worker=max(1, int(p * scale))) for (c, m, p) in plan]},
        "serial_mode": {k: by_mode["serial"][k] for k in ("runs", "calls", "isolation_checks", "disagreements")},
        "fine_mode": {k: by_mode["fine"][k] for k in ("runs", "fine_executions", "calls", "concurrent_segments", "concurrent_calls", "yield_points",
                                                       "preemptions", "baton_handoffs", "isolation_checks", "disagreements")},
        "conflict_feedback": {
            "what": ("the whole-call reference execution of every fine-mode plan logs each distinct non-stack address each call reads or "
                     "writes; two calls of different callers conflict when one writes an address the other touches; up to 4 extra "
                     "executions per plan put a conflicting pair in flight together and preempt at the conflicting addresses"),
            "distinct_address_touches_logged": by_mode["fine"]["access_records"],
            "nonstack_writes_by_library_calls": by_mode["fine"]["nonstack_writes_observed"],
            "conflicting_call_pairs": by_mode["fine"]["conflicting_call_pairs"],
            "plans_with_conflicts": by_mode["fine"]["plans_with_conflicts"],
            "conflict_directed_executions": by_mode["fine"]["directed_executions"],
            "reading": ("0 writes / 0 conflicts means: in every explored plan no library call wrote memory another call could see, so all "
                        "interleavings of those calls are equivalent to the whole-call execution (a dynamic confirmation, for the explored "
                        "plans, of what audit/seam_audit.py shows statically)")},
        "same_thread_reentrancy": {
            "what": ("a simulated signal is delivered to a caller at one of its call's yield points and the handler asks the library another "
                     "question on the interrupted thread (DESIGN 9.8); both the interrupted and the nested call must return their isolated bits"),
            "enabled": not os.environ.get("HSIM_NO_REENTRANCY"),
            "nested_calls_delivered": by_mode["fine"]["nested_calls_delivered"],
            "conflict_directed_reentrant_executions": by_mode["fine"]["nest_directed_executions"],
            "same_caller_conflicting_pairs": by_mode["fine"]["same_caller_conflict_pairs"],
            "handler_self_deadlocks_not_counted_as_anything": by_mode["fine"]["handler_self_deadlocks"]},
        "library_calls_executed": total["calls"],
        "processes_forked": total["forks"],
        "simulated_time": {"seconds_covered_summed_over_executions": round(total["simulated_ns"] / 1e9, 3),
                           "clock_queries_inside_library_calls": total["clock_queries_inside_library_calls"],
                           "policies": "steady (10us per call, 1us per query): plan-order, fine-mode, isolated; jumpy (seeded us..days per call): reverse-order",
                           "note": "0 queries means the library never asked what time it is on any explored path (the audit says the same statically); "
                                   "the seconds covered are then simulated time that nothing observed"},
        "build_cells": per_cell,
        "clients_per_run_histogram": dict({str(i + 1): clients_hist[i] for i in range(8)}, **{"more_than_8": clients_hist_crowd}),
        "plan_lengths": {"runs_with_150_plus_calls": total["long_runs"], "runs_with_3000_plus_calls": total["very_long_runs"],
                         "hot_loop_runs_70000_plus_calls": total["hot_loop_runs"], "alias_sweep_runs_one_base_many_multipliers": total["alias_sweep_runs"], "longest_plan": max_len},
        "crowd_runs_66_to_90_live_callers": total["crowd_runs"],
        "thread_churn": {"runs_with_thread_restarts": total["churn_runs"], "planned_restarts": total["planned_respawns"],
                         "caller_threads_started": total["threads_started"], "most_threads_seen_by_one_process": max_threads},
        "operations_in_catalogue": ops_total, "operations_exercised": ops_hit, "operations_never_called": never,
        "calls_per_operation_top": dict(sorted(per_op.items(), key=lambda kv: -kv[1])[:25]),
        "aliasing_adjacencies_same_client": alias_same,
        "aliasing_adjacencies_cross_client": alias_cross,
        "distinct_adjacency_classes": len(adjacency),
        "distinct_adjacency_classes_rule": "distinct (later op, earlier op, alias kind, same/cross client) tuples reached",
        "synchronous_signals_caught_identically": total["signals_caught"],
        "items_lost_to_child_death": total["items_lost"],
        "hung_children": total["hung_children"],
        "children_the_machine_refused_threads_for": total["children_refused_threads"],
        "process_life_cycle": {"probes": total["lifecycle_probes"], "calls_before_library_initialisers": total["early_calls"],
                               "calls_after_library_destructors": total["late_calls"],
                               "how": "the harness binary re-executes itself; sim/early.cc (linked before /repo's fixed_math.cc) calls from a global constructor and destructor"},
        "fault_kinds_injected": {"allocation_failure_inside_call": total["allocation_failures_injected"]},
        "fault_injection": {"allocation_requests_observed_inside_library_calls": total["allocations_inside_library_calls"],
                            "plans_in_which_the_library_allocated": total["plans_with_allocations"],
                            "fault_injecting_executions": total["fault_injecting_executions"],
                            "allocation_failures_injected": total["allocation_failures_injected"]},
        "fault_kinds_note": ("one fault kind exists in the harness: the n-th allocation requested by one call fails (DESIGN 9.5). It is injected only "
                             "in plans whose fault-free execution saw the library allocate; a count of 0 requests observed means the library "
                             "allocates nothing on any explored path (audit/seam_audit.py S2 says the same statically), so there was nothing to "
                             "fail. No other fallible dependency exists: no I/O, no system call, no clock."),
        "interleaving_granularity": ("serial mode: whole public calls. fine mode: every instrumented access of library code to non-stack "
                                     "memory (sequentially consistent interleavings only)"),
        "stateless_tree_note": ("on a tree where audit/seam_audit.py reports no seam, every schedule is observationally equivalent; the "
                                "counts above then measure the search performed, not distinct behaviours reached"),
        "components": {"real": ["fixed_lib/include/fixedmath/* (all headers)", "fixed_lib/src/fixed_math.cc + the four tables",
                                "libm sqrt", "caller threads (real pthreads; exactly one holds the baton)"],
                       "stubbed": ["fine mode only: the ThreadSanitizer runtime is replaced by sim/tsan_shim.cc (yield points; atomics really "
                                   "performed, seq_cst); pthread_mutex_* and __cxa_guard_* are simulated while a simulated call runs"]},
        "unstable_reports": unstable,
        "timing_s": {"build": round(t_build, 2), "scan": round(t_scan, 2)},
    }
    assumptions = [
        "decides only: run-time result bits of a public call do not depend on earlier calls, on the order in which callers' calls reach the "
        "library, or on where a caller is preempted inside a call (any such dependence => C08 false). Blind to input-only and "
        "configuration-only defects by construction.",
        "results are compared only within one binary; cross-compiler / constexpr-vs-run-time equality on a given input is not checked",
        "fork() gives the child pristine library state (the zygote never calls the library)",
        "fine mode explores sequentially consistent interleavings at instrumented-access granularity, not hardware reorderings",
        "known input-only traps of the unchanged tree (INT64_MIN / -1 patterns, negative table angles) are excluded from the workload",
    ]
    write_evidence(tier, seed, cov, wall, violations, assumptions)
    print(f"hsim[{PROPERTY}] tier={tier} seed={seed}: serial {by_mode['serial']['runs']} runs x2 histories; fine {by_mode['fine']['fine_executions']} "
          f"executions ({by_mode['fine']['concurrent_segments']} concurrent segments, {by_mode['fine']['yield_points']} yield points, "
          f"{by_mode['fine']['preemptions']} preemptions); {total['calls']} calls; {len(per_cell)} build cell(s); {wall:.1f}s; "
          f"distinct non-trivial: {distinct_serial} plans + {distinct_fine} fine executions; {ops_hit}/{ops_total} operations; "
          f"disagreements={total['disagreements']}")
    for l in known_lines:
        print(l)
    for path, f in replay_paths:
        print(f"  [{f['mode']}] {describe(f)}  isolated={f['isolated']['bits']} observed={f['observed']['bits']} "
              f"(minimised {f['original_calls']} calls/{f['original_switches']} switches -> {f['minimised_calls']}/{f['minimised_switches']} in {f['minimise_tests']} tests)")
        print(f"VIOLATION property={PROPERTY} replay={path}")
    return 1 if violations else 0


def cell_for(build_name):
    for c in (G20, C17, G17A, C20):
        for m in ("serial", "fine"):
            if cell_name(c, m) == build_name:
                return c, m
    return G20, "serial"


def run_replay(path):
    rec = json.load(open(path))
    cell, mode = cell_for(rec.get("build", ""))
    b = build(cell, mode, "replay")
    e = exec_schedule(b, rec)
    if e is None:
        print("check.py: replay could not execute", file=sys.stderr)
        return 2
    print(f"replay [{cell_name(cell, mode)}]: {describe(rec)}")
    print(f"  isolated={e['isolated']}  observed={e['observed']}  (recorded isolated={rec['isolated']} observed={rec['observed']})")
    if e["differs"]:
        same = e["observed"] == rec["observed"] and e["isolated"] == rec["isolated"]
        print(f"  reproduces: the victim's result is not its isolated result{'' if same else ' (different bits than recorded)'}")
        print(f"VIOLATION property={PROPERTY} replay={path}")
        return 1
    print("  does not reproduce on this tree: the victim returns its isolated bits")
    return 0


def run_determinism():
    """Same seeds, different worker splits, fresh processes: digests (over every result of every run) must be identical."""
    ok = True
    for cell, mode, n in ((G20, "serial", 6000), (G20, "fine", 1600)):
        b = build(cell, mode, "det_" + mode)
        base = 777 * 10**10
        digests = []
        for workers in (1, 3, 8, 16):
            per = n // workers
            spans = [(base + w * per, per if w < workers - 1 else n - per * (workers - 1)) for w in range(workers)]
            with ThreadPoolExecutor(max_workers=workers) as ex:
                res = list(ex.map(lambda s: scan(b, mode, s[0], s[1], os.devnull), spans))
            d = sum(int(r[2]["digest"], 16) for r in res) % 2**64
            tr = sum(r[2]["preemptions"] for r in res)
            ns = sum(r[2].get("nested_calls_delivered", 0) for r in res)
            digests.append((d, tr, ns))
            print(f"  {mode:6s} workers={workers:2d}: digest=0x{d:016x} runs={sum(r[2]['runs'] for r in res)} preemptions={tr} nested_calls_delivered={ns}")
        ok = ok and len(set(digests)) == 1
    print("determinism:", "OK (identical digests and decision counts)" if ok else "FAILED")
    return 0 if ok else 2


def main():
    ap = argparse.ArgumentParser()
    ap.add_argument("--tier", default=os.environ.get("VERIF_TIER", "quick"), choices=["quick", "thorough"])
    ap.add_argument("--replay")
    ap.add_argument("--determinism", action="store_true")
    a = ap.parse_args()
    seed = int(os.environ.get("VERIF_SEED", "1"))
    if a.replay:
        return run_replay(a.replay)
    if a.determinism:
        return run_determinism()
    return run_check(a.tier, seed)


if __name__ == "__main__":
    sys.exit(main())
