// Operation catalogue: every public entry point of fixed_math as  bits = op(bits, bits).
// This is the only harness file that includes the library; in the fine-grained build it is
// compiled with -fsanitize=thread (compile only) together with /repo's fixed_math.cc so that the
// compiler inserts a hook before every memory access of the library code (DESIGN.md 9.4).
#include <fixedmath/fixed_math.hpp>
#include "ops.h"
#include <cstring>
#include <type_traits>

#if defined(__GNUC__)
#pragma GCC diagnostic ignored "-Wdeprecated-declarations"
#endif

using fixedmath::fixed_t;
using fixedmath::as_fixed;

template<class T> static inline T arg(uint64_t b)
  {
  if constexpr (std::is_same_v<T, fixed_t>) return as_fixed(static_cast<int64_t>(b));
  else if constexpr (std::is_same_v<T, float>) { uint32_t u = static_cast<uint32_t>(b); float f; std::memcpy(&f, &u, 4); return f; }
  else if constexpr (std::is_same_v<T, double>) { double d; std::memcpy(&d, &b, 8); return d; }
  else return static_cast<T>(b);
  }
template<class R> static inline uint64_t bits(R r)
  {
  if constexpr (std::is_same_v<R, fixed_t>) return static_cast<uint64_t>(r.v);
  else if constexpr (std::is_same_v<R, float>) { uint32_t u; std::memcpy(&u, &r, 4); return u; }
  else if constexpr (std::is_same_v<R, double>) { uint64_t u; std::memcpy(&u, &r, 8); return u; }
  else if constexpr (std::is_same_v<R, bool>) return r ? 1u : 0u;
  else return static_cast<uint64_t>(static_cast<int64_t>(r));
  }

static std::vector<Op> & ops_ref() { static std::vector<Op> * v = new std::vector<Op>(); return *v; }
#define g_ops (ops_ref())

static bool ok_always(uint64_t, uint64_t) { return true; }
// input-only traps of the unchanged tree (DESIGN 6, C03) are kept out of the workload
static bool ok_b_not_m1(uint64_t, uint64_t b) { return static_cast<int64_t>(b) != -1; }
static bool ok_a_not_m1(uint64_t a, uint64_t) { return static_cast<int64_t>(a) != -1; }
static bool ok_a_not_min(uint64_t a, uint64_t) { return static_cast<int64_t>(a) != INT64_MIN; }
static bool ok_f32_div(uint64_t, uint64_t b) { float f = arg<float>(b); return !(f < 0.0f && f > -1e-4f); }


static void reg(std::string n, Kind a, Kind b, opfn f, int fam, okfn ok = ok_always)
  { g_ops.push_back(Op{std::move(n), a, b, f, ok, fam}); }

#define FXU(NAME, FAM, EXPR) reg(NAME, K_FX, K_NONE, [](uint64_t A, uint64_t) -> uint64_t { fixed_t a = arg<fixed_t>(A); (void)a; return bits(EXPR); }, FAM)
#define FXB(NAME, FAM, EXPR, OK) reg(NAME, K_FX, K_FX, [](uint64_t A, uint64_t B) -> uint64_t { fixed_t a = arg<fixed_t>(A), b = arg<fixed_t>(B); (void)a; (void)b; return bits(EXPR); }, FAM, OK)

template<class T> static void reg_mixed(const char * tn, Kind k)
  {
  std::string s(tn);
  constexpr bool is_int = std::is_integral_v<T>;
  constexpr bool is_dbl = std::is_same_v<T, double>;
  okfn div_ft = is_int ? ok_a_not_min : (is_dbl ? ok_always : ok_f32_div);   // fixed / T
  okfn div_tf = is_dbl ? ok_always : ok_a_not_m1;                            // T / fixed   (A is the fixed operand)
  reg("add_fx_" + s, K_FX, k, [](uint64_t A, uint64_t B) -> uint64_t { return bits(arg<fixed_t>(A) + arg<T>(B)); }, FAM_ARITH);
  reg("add_" + s + "_fx", K_FX, k, [](uint64_t A, uint64_t B) -> uint64_t { return bits(arg<T>(B) + arg<fixed_t>(A)); }, FAM_ARITH);
  reg("sub_fx_" + s, K_FX, k, [](uint64_t A, uint64_t B) -> uint64_t { return bits(arg<fixed_t>(A) - arg<T>(B)); }, FAM_ARITH);
  reg("sub_" + s + "_fx", K_FX, k, [](uint64_t A, uint64_t B) -> uint64_t { return bits(arg<T>(B) - arg<fixed_t>(A)); }, FAM_ARITH);
  reg("mul_fx_" + s, K_FX, k, [](uint64_t A, uint64_t B) -> uint64_t { return bits(arg<fixed_t>(A) * arg<T>(B)); }, FAM_ARITH);
  reg("mul_" + s + "_fx", K_FX, k, [](uint64_t A, uint64_t B) -> uint64_t { return bits(arg<T>(B) * arg<fixed_t>(A)); }, FAM_ARITH);
  reg("div_fx_" + s, K_FX, k, [](uint64_t A, uint64_t B) -> uint64_t { return bits(arg<fixed_t>(A) / arg<T>(B)); }, FAM_ARITH, div_ft);
  reg("div_" + s + "_fx", K_FX, k, [](uint64_t A, uint64_t B) -> uint64_t { return bits(arg<T>(B) / arg<fixed_t>(A)); }, FAM_ARITH, div_tf);
  if constexpr (!is_dbl)
    {
    reg("addeq_fx_" + s, K_FX, k, [](uint64_t A, uint64_t B) -> uint64_t { fixed_t a = arg<fixed_t>(A); a += arg<T>(B); return bits(a); }, FAM_ARITH);
    reg("subeq_fx_" + s, K_FX, k, [](uint64_t A, uint64_t B) -> uint64_t { fixed_t a = arg<fixed_t>(A); a -= arg<T>(B); return bits(a); }, FAM_ARITH);
    reg("muleq_fx_" + s, K_FX, k, [](uint64_t A, uint64_t B) -> uint64_t { fixed_t a = arg<fixed_t>(A); a *= arg<T>(B); return bits(a); }, FAM_ARITH);
    reg("diveq_fx_" + s, K_FX, k, [](uint64_t A, uint64_t B) -> uint64_t { fixed_t a = arg<fixed_t>(A); a /= arg<T>(B); return bits(a); }, FAM_ARITH, div_ft);
    }
  reg("ctor_" + s, k, K_NONE, [](uint64_t A, uint64_t) -> uint64_t { return bits(fixed_t{arg<T>(A)}); }, FAM_CONV);
  reg("to_" + s, K_FX, K_NONE, [](uint64_t A, uint64_t) -> uint64_t { return bits(static_cast<T>(arg<fixed_t>(A))); }, FAM_CONV);
  reg("to_arith_" + s, K_FX, K_NONE, [](uint64_t A, uint64_t) -> uint64_t { return bits(fixedmath::fixed_to_arithmetic<T>(arg<fixed_t>(A))); }, FAM_CONV);
  }

template<class T> static void reg_angle(const char * tn, Kind k)
  {
  std::string s(tn);
  reg("sin_angle_" + s, k, K_NONE, [](uint64_t A, uint64_t) -> uint64_t { return bits(fixedmath::sin_angle(arg<T>(A))); }, FAM_ANGLE);
  reg("cos_angle_" + s, k, K_NONE, [](uint64_t A, uint64_t) -> uint64_t { return bits(fixedmath::cos_angle(arg<T>(A))); }, FAM_ANGLE);
  reg("tan_angle_" + s, k, K_NONE, [](uint64_t A, uint64_t) -> uint64_t { return bits(fixedmath::tan_angle(arg<T>(A))); }, FAM_ANGLE);
  if constexpr (std::is_integral_v<T>)
    reg("angle_to_radians_" + s, k, K_NONE, [](uint64_t A, uint64_t) -> uint64_t { return bits(fixedmath::angle_to_radians(arg<T>(A))); }, FAM_ANGLE);
  }

std::vector<Op> hsim_build_catalogue()
  {
  g_ops.clear();
  using namespace fixedmath;
  FXB("add", FAM_ARITH, a + b, ok_always);
  FXB("sub", FAM_ARITH, a - b, ok_always);
  FXB("mul", FAM_ARITH, a * b, ok_always);
  FXB("div", FAM_ARITH, a / b, ok_b_not_m1);
  FXB("addeq", FAM_ARITH, (a += b), ok_always);
  FXB("subeq", FAM_ARITH, (a -= b), ok_always);
  FXB("muleq", FAM_ARITH, (a *= b), ok_always);
  FXB("diveq", FAM_ARITH, (a /= b), ok_b_not_m1);
  FXB("fixed_addition", FAM_ARITH, fixed_addition(a, b), ok_always);
  FXB("fixed_substract", FAM_ARITH, fixed_substract(a, b), ok_always);
  FXB("fixed_multiply", FAM_ARITH, fixed_multiply(a, b), ok_always);
  FXB("fixed_division", FAM_ARITH, fixed_division(a, b), ok_b_not_m1);
  FXB("and", FAM_MISC, a & b, ok_always);
  FXB("eq", FAM_MISC, a == b, ok_always);
  FXB("ne", FAM_MISC, a != b, ok_always);
  FXB("lt", FAM_MISC, a < b, ok_always);
  FXB("le", FAM_MISC, a <= b, ok_always);
  FXB("gt", FAM_MISC, a > b, ok_always);
  FXB("ge", FAM_MISC, a >= b, ok_always);
  FXB("hypot", FAM_SQRT, hypot(a, b), ok_always);
  FXB("atan2", FAM_ATRIG, atan2(a, b), ok_b_not_m1);
  FXB("hypot_aprox", FAM_TABLE, hypot_aprox(a, b), ok_always);
  FXU("neg", FAM_MISC, -a);
  FXU("abs", FAM_MISC, abs(a));
  FXU("isnan", FAM_MISC, isnan(a));
  FXU("ceil", FAM_MISC, ceil(a));
  FXU("floor", FAM_MISC, floor(a));
  FXU("sqrt", FAM_SQRT, sqrt(a));
  FXU("sin", FAM_TRIG, sin(a));
  FXU("cos", FAM_TRIG, cos(a));
  FXU("tan", FAM_TRIG, tan(a));
  FXU("asin", FAM_ATRIG, asin(a));
  FXU("acos", FAM_ATRIG, acos(a));
  FXU("atan", FAM_ATRIG, atan(a));
  FXU("sqrt_aprox", FAM_TABLE, sqrt_aprox(a));
  FXU("atan_index_aprox", FAM_TABLE, atan_index_aprox(a));
  FXU("atan_aprox", FAM_TABLE, atan_aprox(a));
  reg("shr", K_FX, K_SH, [](uint64_t A, uint64_t B) -> uint64_t { return bits(arg<fixed_t>(A) >> arg<int>(B)); }, FAM_MISC);
  reg("shl", K_FX, K_SH, [](uint64_t A, uint64_t B) -> uint64_t { return bits(arg<fixed_t>(A) << arg<int>(B)); }, FAM_MISC);
  reg_mixed<int8_t>("i8", K_I8);     reg_mixed<int16_t>("i16", K_I16);
  reg_mixed<int32_t>("i32", K_I32);  reg_mixed<int64_t>("i64", K_I64);
  reg_mixed<uint8_t>("u8", K_U8);    reg_mixed<uint16_t>("u16", K_U16);
  reg_mixed<uint32_t>("u32", K_U32); reg_mixed<uint64_t>("u64", K_U64);
  reg_mixed<float>("f32", K_F32);    reg_mixed<double>("f64", K_F64);
  reg_angle<int8_t>("i8", K_I8);     reg_angle<int16_t>("i16", K_I16);
  reg_angle<int32_t>("i32", K_I32);  reg_angle<int64_t>("i64", K_I64);
  reg_angle<uint8_t>("u8", K_U8);    reg_angle<uint16_t>("u16", K_U16);
  reg_angle<uint32_t>("u32", K_U32); reg_angle<uint64_t>("u64", K_U64);
  reg_angle<float>("f32", K_F32);    reg_angle<fixed_t>("fx", K_FX);
  reg("sin_angle_aprox", K_ANG, K_NONE, [](uint64_t A, uint64_t) -> uint64_t { return bits(fixedmath::sin_angle_aprox(arg<int32_t>(A))); }, FAM_TABLE);
  reg("cos_angle_aprox", K_ANG, K_NONE, [](uint64_t A, uint64_t) -> uint64_t { return bits(fixedmath::cos_angle_aprox(arg<int32_t>(A))); }, FAM_TABLE);
  reg("tan_tab", K_IDX8, K_NONE, [](uint64_t A, uint64_t) -> uint64_t { return bits(fixedmath::tan_tab(arg<uint8_t>(A))); }, FAM_TABLE);
  reg("square_root_tab", K_IDX8, K_NONE, [](uint64_t A, uint64_t) -> uint64_t { return bits(fixedmath::square_root_tab(arg<uint8_t>(A))); }, FAM_TABLE);
  reg("sin_angle_tab", K_IDX360, K_NONE, [](uint64_t A, uint64_t) -> uint64_t { return bits(fixedmath::sin_angle_tab(arg<uint16_t>(A))); }, FAM_TABLE);
  reg("cos_angle_tab", K_IDX360, K_NONE, [](uint64_t A, uint64_t) -> uint64_t { return bits(fixedmath::cos_angle_tab(arg<uint16_t>(A))); }, FAM_TABLE);
  return g_ops;
  }
