// Seam-audit translation unit (see DESIGN.md 2.3 / 5).
//
// Instantiates every public entry point of the header part of fixed_math behind
// external-linkage wrappers, so that whatever the headers would pull into a user's
// object file (undefined symbols, TLS, guards, writable statics, dynamic
// initialisers) shows up in *this* object file, where audit/seam_audit.sh looks.
// It decides no property and is never executed.
//
// Written against the public declarations in fixedmath/fixed_math.hpp + math.h; if an
// entry point is added to the library it should be added here too (the audit also
// greps the headers, so a seam in an un-instantiated template is still seen at
// source level).
#include <fixedmath/fixed_math.hpp>
#include <cstdint>

#if defined(__GNUC__)
#pragma GCC diagnostic ignored "-Wdeprecated-declarations"
#endif

using fixedmath::fixed_t;

#define VERIF_USED __attribute__((used, noinline))

namespace
{
template<typename T>
struct mixed_ops
  {
  // a op t, t op a, a op= t  for op in + - * /
  VERIF_USED static void run( fixed_t a, T t, fixed_t * out, double * dout )
    {
    if constexpr ( std::is_same_v<T,double> )
      {
      dout[0] = a + t; dout[1] = t + a;
      dout[2] = a - t; dout[3] = t - a;
      dout[4] = a * t; dout[5] = t * a;
      dout[6] = a / t; dout[7] = t / a;
      }
    else
      {
      out[0] = a + t; out[1] = t + a;
      out[2] = a - t; out[3] = t - a;
      out[4] = a * t; out[5] = t * a;
      out[6] = a / t; out[7] = t / a;
      }
    if constexpr ( !std::is_same_v<T,double> )   // a op= double does not compile: the result is a double
      {
      fixed_t b{a}; b += t; out[8] = b;
      b = a; b -= t; out[9] = b;
      b = a; b *= t; out[10] = b;
      b = a; b /= t; out[11] = b;
      }
    out[12] = fixed_t{t};
    // (arithmetic_to_fixed is reached through the converting constructor above; naming it
    //  directly is ambiguous once fixed_math.hpp's re-declaration is visible)
    volatile T back = fixedmath::fixed_to_arithmetic<T>(a);
    (void)back;
    volatile T back2 = static_cast<T>(a);
    (void)back2;
    }
  };

template<typename T>
struct angle_ops
  {
  VERIF_USED static void run( T d, fixed_t * out )
    {
    out[0] = fixedmath::sin_angle(d);
    out[1] = fixedmath::cos_angle(d);
    out[2] = fixedmath::tan_angle(d);
    if constexpr ( std::is_integral_v<T> )
      out[3] = fixedmath::angle_to_radians(d);
    }
  };
}

extern "C"
{
VERIF_USED void verif_mixed( fixed_t a, fixed_t * out, double * dout,
                             int8_t i8, int16_t i16, int32_t i32, int64_t i64,
                             uint8_t u8, uint16_t u16, uint32_t u32, uint64_t u64,
                             float f, double d )
  {
  mixed_ops<int8_t>::run(a, i8, out, dout);
  mixed_ops<int16_t>::run(a, i16, out, dout);
  mixed_ops<int32_t>::run(a, i32, out, dout);
  mixed_ops<int64_t>::run(a, i64, out, dout);
  mixed_ops<uint8_t>::run(a, u8, out, dout);
  mixed_ops<uint16_t>::run(a, u16, out, dout);
  mixed_ops<uint32_t>::run(a, u32, out, dout);
  mixed_ops<uint64_t>::run(a, u64, out, dout);
  mixed_ops<float>::run(a, f, out, dout);
  mixed_ops<double>::run(a, d, out, dout);
  }

VERIF_USED void verif_angles( fixed_t a, fixed_t * out,
                              int8_t i8, int16_t i16, int32_t i32, int64_t i64,
                              uint8_t u8, uint16_t u16, uint32_t u32, uint64_t u64, float f )
  {
  angle_ops<int8_t>::run(i8, out);
  angle_ops<int16_t>::run(i16, out);
  angle_ops<int32_t>::run(i32, out);
  angle_ops<int64_t>::run(i64, out);
  angle_ops<uint8_t>::run(u8, out);
  angle_ops<uint16_t>::run(u16, out);
  angle_ops<uint32_t>::run(u32, out);
  angle_ops<uint64_t>::run(u64, out);
  angle_ops<float>::run(f, out);
  angle_ops<fixed_t>::run(a, out);
  }

VERIF_USED void verif_fixed_fixed( fixed_t a, fixed_t b, int r, fixed_t * out, bool * bout )
  {
  out[0] = a + b;  out[1] = a - b;  out[2] = a * b;  out[3] = a / b;
  fixed_t c{a}; c += b; out[4] = c;
  c = a; c -= b; out[5] = c;
  c = a; c *= b; out[6] = c;
  c = a; c /= b; out[7] = c;
  out[8] = -a;
  out[9] = fixedmath::abs(a);
  out[10] = fixedmath::ceil(a);
  out[11] = fixedmath::floor(a);
  out[12] = a >> r;
  out[13] = a << r;
  out[14] = a & b;
  out[15] = fixedmath::sqrt(a);
  out[16] = fixedmath::hypot(a, b);
  out[17] = fixedmath::sin(a);
  out[18] = fixedmath::cos(a);
  out[19] = fixedmath::tan(a);
  out[20] = fixedmath::asin(a);
  out[21] = fixedmath::acos(a);
  out[22] = fixedmath::atan(a);
  out[23] = fixedmath::atan2(a, b);
  out[24] = fixedmath::fixed_addition(a, b);
  out[25] = fixedmath::fixed_substract(a, b);
  out[26] = fixedmath::fixed_multiply(a, b);
  out[27] = fixedmath::fixed_division(a, b);
  out[28] = fixedmath::as_fixed(a.v);
  out[29] = std::numeric_limits<fixed_t>::quiet_NaN();
  out[30] = std::numeric_limits<fixed_t>::max();
  out[31] = std::numeric_limits<fixed_t>::lowest();
  out[32] = std::numeric_limits<fixed_t>::min();
  out[33] = std::numeric_limits<fixed_t>::epsilon();
  bout[0] = a == b; bout[1] = a != b; bout[2] = a < b;
  bout[3] = a <= b; bout[4] = a > b;  bout[5] = a >= b;
  bout[6] = fixedmath::isnan(a);
  volatile double dd = static_cast<double>(a); (void)dd;
  }

// the compiled lookup-table API (definitions live in fixed_lib/src/fixed_math.cc)
VERIF_USED void verif_tables( fixed_t a, fixed_t b, int32_t angle, fixed_t * out )
  {
  out[0] = fixedmath::sin_angle_aprox(angle);
  out[1] = fixedmath::cos_angle_aprox(angle);
  out[2] = fixedmath::sqrt_aprox(a);
  out[3] = fixedmath::hypot_aprox(a, b);
  out[4] = fixedmath::atan_index_aprox(a);
  out[5] = fixedmath::atan_aprox(a);
  out[6] = fixedmath::tan_tab(static_cast<uint8_t>(angle));
  out[7] = fixedmath::sin_angle_tab(static_cast<uint16_t>(angle));
  out[8] = fixedmath::cos_angle_tab(static_cast<uint16_t>(angle));
  out[9] = fixedmath::as_fixed(fixedmath::square_root_tab(static_cast<uint8_t>(angle)));
  }
}
