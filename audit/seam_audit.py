#!/usr/bin/env python3
"""Seam audit for arturbac/fixed_math (DESIGN.md sections 2 and 5).

NOT a property check.  It decides none of C01..C20, never prints a VIOLATION line and
is not registered under MANIFEST.checks.  It re-derives, from /repo's *current working
tree*, the facts on which the "not applicable to deterministic simulation" verdict for
all twenty properties rests:

  S1  no source file of the library includes a threading / timing / randomness / file /
      signal / fenv / allocation header or names thread_local, volatile, atomic, mutex...
  S2  the object files a user links (fixed_math.cc, and a TU that instantiates every
      public header entry point) have no undefined symbol outside
      {sqrt, the <iostream> static-init set, the EH personality/terminate stubs}
  S3  no TLS section or TLS symbol, no __cxa_guard_* (no lazily initialised local static)
  S4  no dynamic initialiser other than <iostream>'s std::ios_base::Init
  S5  no writable object other than the four lookup tables and std::__ioinit
  S6  nothing writes the four lookup tables: the library TU still compiles with them
      const-qualified, and no const_cast / reinterpret_cast / C-style pointer cast names them

Exit status: 0 "no seam", 3 "a seam appeared" (list printed, each item saying which
DESIGN.md argument it undermines), 2 the audit itself could not run (compiler error etc).
Scratch output goes to a mkdtemp directory outside /repo and /verif, removed on exit.
"""
import argparse, json, os, re, shutil, subprocess, sys, tempfile, time
from concurrent.futures import ThreadPoolExecutor

REPO = os.environ.get("VERIF_REPO", "/repo")
HERE = os.path.dirname(os.path.abspath(__file__))

FORBIDDEN_INCLUDES = [
    # headers whose mere presence means a schedulable / ambient / fallible dependency; container and
    # allocation headers (<memory> is included, unused, by utility_cxx20.h) are policed at object
    # level instead: an allocation shows up as an undefined operator new / malloc under S2
    "thread", "mutex", "shared_mutex", "atomic", "condition_variable", "future", "semaphore",
    "latch", "barrier", "stop_token", "coroutine", "chrono", "ctime", "time.h", "random",
    "fstream", "filesystem", "csignal", "signal.h", "cfenv", "fenv.h",
    "unistd.h", "pthread.h", "sys/", "fcntl.h", "csetjmp", "setjmp.h", "cerrno", "errno.h",
    "execution", "istream", "sstream",
]
# iostream.h (operator<<) legitimately includes these two; no property is anchored there (DESIGN 2.4 h)
ALLOWED_INCLUDES_BY_FILE = {"fixed_lib/include/fixedmath/iostream.h": {"iostream", "iomanip"},
                            # the generated table headers include these and use nothing from them
                            "fixed_lib/src/square_root_table.h": {"cstdio", "cassert"},
                            "fixed_lib/src/tan_table.h": {"cstdio", "cassert"},
                            "fixed_lib/src/sin_angle_table.h": {"cstdio", "cassert"},
                            "fixed_lib/src/cos_angle_table.h": {"cstdio", "cassert"}}
IO_INCLUDES = {"iostream", "iomanip", "cstdio", "stdio.h", "ostream", "ios", "cassert", "assert.h"}

FORBIDDEN_TOKENS = [
    r"\bthread_local\b", r"\b__thread\b", r"\bvolatile\b", r"\bstd::atomic", r"\b_Atomic\b",
    r"\bstd::mutex\b", r"\bstd::thread\b", r"\bstd::call_once\b", r"\bonce_flag\b",
    r"\bmalloc\s*\(", r"\bcalloc\s*\(", r"\brealloc\s*\(", r"\bfree\s*\(", r"\bnew\b(?!\s*\()\s+\w",
    r"\bgetenv\s*\(", r"\bfopen\s*\(", r"\bfread\s*\(", r"\bfwrite\s*\(", r"\bprintf\s*\(",
    r"\bfesetround\s*\(", r"\bfegetround\s*\(", r"\bfeenableexcept\s*\(", r"\bsignal\s*\(",
    r"\bsigaction\b", r"\brand\s*\(", r"\bsrand\s*\(", r"\btime\s*\(", r"\bclock\s*\(",
    r"\bclock_gettime\b", r"\bsleep\s*\(", r"\busleep\s*\(", r"\bnanosleep\b", r"\berrno\b",
    r"\bsetjmp\b", r"\blongjmp\b", r"\b__sync_", r"\b__atomic_", r"\bco_await\b", r"\bco_yield\b",
    r"\bmutable\b", r"\basm\b", r"\b__asm__\b",
]

UNDEF_ALLOWED_LIB = {
    "_ZNSt8ios_base4InitC1Ev", "_ZNSt8ios_base4InitD1Ev", "__cxa_atexit", "__dso_handle",
    "__gxx_personality_v0", "_ZSt9terminatev", "__cxa_begin_catch", "_GLOBAL_OFFSET_TABLE_",
    "__clang_call_terminate",
}
UNDEF_ALLOWED_EP = {
    "sqrt", "__gxx_personality_v0", "_ZSt9terminatev", "__cxa_begin_catch",
    "_GLOBAL_OFFSET_TABLE_", "__clang_call_terminate",
    # the compiled lookup-table API, defined in fixed_math.cc (checked to be defined there)
    "_ZN9fixedmath10sqrt_aproxENS_7fixed_tE", "_ZN9fixedmath11hypot_aproxENS_7fixed_tES0_",
    "_ZN9fixedmath13cos_angle_tabEt", "_ZN9fixedmath13sin_angle_tabEt",
    "_ZN9fixedmath15square_root_tabEh", "_ZN9fixedmath16atan_index_aproxENS_7fixed_tE",
    "_ZN9fixedmath7tan_tabEh",
}
# Pure helpers a compiler or a benign repair may pull in: libgcc 128-bit / bit-count arithmetic,
# mem* for aggregate copies, and libm functions that (like sqrt, DESIGN 2.4 b) are functions of
# their argument with no legal alternative behaviour to inject.  None is a seam.
PURE_HELPERS = {
    "__multi3", "__divti3", "__modti3", "__udivti3", "__umodti3", "__udivmodti4", "__divmodti4",
    "__clzdi2", "__clzsi2", "__ctzdi2", "__ctzsi2", "__popcountdi2", "__popcountsi2", "__absvdi2",
    "memcpy", "memmove", "memset", "memcmp",
    "sqrt", "sqrtf", "sqrtl", "floor", "floorf", "ceil", "ceilf", "trunc", "truncf", "round", "roundf",
    "fabs", "fabsf", "fmod", "fmodf", "ldexp", "ldexpf", "frexp", "frexpf", "scalbn", "scalbnf",
    "lround", "lroundf", "llround", "llroundf", "copysign", "copysignf", "hypot", "hypotf",
    "sin", "cos", "tan", "asin", "acos", "atan", "atan2", "sinf", "cosf", "tanf",
    "__stack_chk_fail",
}
UNDEF_ALLOWED_LIB |= PURE_HELPERS
UNDEF_ALLOWED_EP |= PURE_HELPERS
TABLES = {"_ZN9fixedmathL19square_root_table__E", "_ZN9fixedmathL11tan_table__E",
          "_ZN9fixedmathL17sin_angle_table__E", "_ZN9fixedmathL17cos_angle_table__E"}
WRITABLE_ALLOWED = TABLES | {"_ZStL8__ioinit", "DW.ref.__gxx_personality_v0"}
INIT_RELOC_ALLOWED = {"_ZNSt8ios_base4InitC1Ev", "_ZNSt8ios_base4InitD1Ev", "__cxa_atexit",
                      "__dso_handle", ".bss", "_ZStL8__ioinit", "__cxx_global_var_init",
                      "_Z41__static_initialization_and_destruction_0ii", ".text", ".text.startup"}

seams = []      # (rule, where, why)
notes = []


def seam(rule, where, why):
    seams.append((rule, where, why))


def run(cmd, **kw):
    return subprocess.run(cmd, stdout=subprocess.PIPE, stderr=subprocess.PIPE, text=True, **kw)


def strip_comments(src):
    src = re.sub(r"/\*.*?\*/", lambda m: "\n" * m.group(0).count("\n"), src, flags=re.S)
    src = re.sub(r"//[^\n]*", "", src)
    # string literals are irrelevant to token matching
    src = re.sub(r'"(?:\\.|[^"\\\n])*"', '""', src)
    return src


def library_sources():
    out = []
    for base in ("fixed_lib/include", "fixed_lib/src"):
        for d, _, fs in os.walk(os.path.join(REPO, base)):
            for f in sorted(fs):
                if f.endswith((".h", ".hpp", ".cc", ".cpp", ".hh", ".ipp", ".inl", ".tcc")):
                    out.append(os.path.relpath(os.path.join(d, f), REPO))
    return sorted(out)


def source_scan(files):
    for rel in files:
        raw = open(os.path.join(REPO, rel), encoding="utf-8", errors="replace").read()
        src = strip_comments(raw)
        allowed = ALLOWED_INCLUDES_BY_FILE.get(rel, set())
        for ln, line in enumerate(src.split("\n"), 1):
            m = re.match(r"\s*#\s*include\s*[<\"]([^>\"]+)[>\"]", line)
            if m:
                inc = m.group(1)
                if inc in allowed:
                    continue
                if inc in IO_INCLUDES:
                    seam("S1", f"{rel}:{ln}", f"includes <{inc}>: a stream/stdio seam outside iostream.h "
                         "(DESIGN 2.2: the only I/O is operator<< in iostream.h)")
                for bad in FORBIDDEN_INCLUDES:
                    if inc == bad or (bad.endswith("/") and inc.startswith(bad)):
                        seam("S1", f"{rel}:{ln}", f"includes <{inc}>: threads/time/random/files/signals/"
                             "fenv/allocation entered the library (DESIGN 2.2 found none)")
                continue
            for pat in FORBIDDEN_TOKENS:
                if re.search(pat, line):
                    seam("S1", f"{rel}:{ln}", f"token /{pat}/ in `{line.strip()[:90]}`: ambient or shared "
                         "state the simulator could own (DESIGN 2.2 found none)")
            if re.search(r"\bstatic\b", line) and not re.search(r"\bstatic_(assert|cast)\b", line):
                # permitted statics: constexpr data members/variables, static member functions,
                # and the four generated tables (policed by S5/S6)
                if re.search(r"\bconstexpr\b|\bconsteval\b", line):
                    continue
                if rel.startswith("fixed_lib/src/") and re.search(r"static\s+std::array<[^>]+>\s+\w+_table__", line):
                    continue
                if re.search(r"\bstatic\b[^;{=]*\(", line):       # static function
                    continue
                seam("S1", f"{rel}:{ln}", f"non-constexpr `static` object `{line.strip()[:90]}`: state that "
                     "survives between calls (DESIGN 2.2: only the four constant tables)")


def readelf_sections(obj):
    out = run(["readelf", "-SW", obj]).stdout
    secs = {}
    for line in out.split("\n"):
        m = re.match(r"\s*\[\s*(\d+)\]\s+(\S*)\s+(\S+)\s+[0-9a-f]+\s+[0-9a-f]+\s+([0-9a-f]+)\s+[0-9a-f]+\s+(\S*)\s", line)
        if m:
            secs[int(m.group(1))] = dict(name=m.group(2), type=m.group(3), size=int(m.group(4), 16),
                                         flags=m.group(5) if not m.group(5).isdigit() else "")
    return secs


def readelf_symbols(obj):
    out = run(["readelf", "-sW", obj]).stdout
    syms = []
    for line in out.split("\n"):
        m = re.match(r"\s*\d+:\s+[0-9a-f]+\s+(\d+)\s+(\S+)\s+(\S+)\s+(\S+)\s+(\S+)\s*(.*)$", line)
        if m:
            syms.append(dict(size=int(m.group(1)), type=m.group(2), bind=m.group(3), ndx=m.group(5),
                             name=m.group(6).strip()))
    return syms


def init_function_relocs(obj):
    out = run(["objdump", "-dr", "--no-show-raw-insn", obj]).stdout
    targets, cur = set(), None
    for line in out.split("\n"):
        m = re.match(r"[0-9a-f]+ <(.+)>:$", line)
        if m:
            n = m.group(1)
            cur = n if re.search(r"GLOBAL__sub_I|__cxx_global_var_init|__static_initialization_and_destruction|GLOBAL__I_", n) else None
            continue
        if cur:
            r = re.search(r"R_X86_64_\w+\s+(\S+?)(?:[-+]0x[0-9a-f]+)?$", line.strip())
            if r:
                targets.add(r.group(1))
            c = re.search(r"\bcall\w*\s+[0-9a-f]+ <([^>+]+)", line)
            if c and c.group(1) != cur:
                targets.add(c.group(1))
    return targets


def object_audit(obj, kind, label):
    secs = readelf_sections(obj)
    syms = readelf_symbols(obj)
    allowed_undef = UNDEF_ALLOWED_LIB if kind == "lib" else UNDEF_ALLOWED_EP
    for s in syms:
        if s["ndx"] == "UND" and s["name"] and s["name"] not in allowed_undef:
            seam("S2", f"{label}", f"undefined symbol {s['name']}: the library now calls out of itself "
                 "(DESIGN 2.3: only sqrt and <iostream>'s initialiser)")
        if s["type"] == "TLS":
            seam("S3", f"{label}", f"thread-local symbol {s['name']} (DESIGN 2.3: no TLS)")
        if "__cxa_guard" in s["name"]:
            seam("S3", f"{label}", f"{s['name']}: a lazily initialised function-local static "
                 "(initialisation order / first-call race becomes schedulable)")
        if s["type"] in ("OBJECT", "COMMON") and s["ndx"] not in ("UND", "ABS"):
            writable = s["ndx"] == "COM" or ("W" in secs.get(int(s["ndx"]), {}).get("flags", ""))
            if writable and s["name"] not in WRITABLE_ALLOWED:
                seam("S5", f"{label}", f"writable object {s['name']} ({s['size']} bytes): state that "
                     "survives between calls (DESIGN 2.3: only the four tables and std::__ioinit)")
    for i, s in secs.items():
        if s["name"].startswith((".tdata", ".tbss")):
            seam("S3", f"{label}", f"TLS section {s['name']}")
        if s["name"] in (".ctors", ".preinit_array") or s["name"].startswith(".init_array"):
            if kind == "ep":
                seam("S4", f"{label}", f"section {s['name']}: the headers now carry a dynamic initialiser")
            elif s["name"] != ".init_array" or s["size"] != 8:
                seam("S4", f"{label}", f"section {s['name']} size {s['size']}: more than the one "
                     "<iostream> initialiser (DESIGN 2.3)")
        # writable sections that hold no named symbol (anonymous data) other than the known ones
    if kind == "lib":
        bad = init_function_relocs(obj) - INIT_RELOC_ALLOWED
        for t in sorted(bad):
            seam("S4", f"{label}", f"static initialiser references {t}: a dynamic initialiser besides "
                 "std::ios_base::Init (tables must stay constant-initialised, DESIGN 2.3)")
        defined = {s["name"] for s in syms if s["ndx"] not in ("UND",) and s["type"] == "FUNC"}
        for need in sorted(n for n in UNDEF_ALLOWED_EP if n.startswith("_ZN9fixedmath")):
            if need not in defined:
                notes.append(f"{label}: {need} not defined in fixed_math.cc (API moved?)")


def const_table_proof(tmp, compilers):
    """S6: the library TU compiles with its four tables const-qualified => no store to them."""
    srcdir = os.path.join(tmp, "consttab")
    shutil.copytree(os.path.join(REPO, "fixed_lib/src"), srcdir)
    n = 0
    for f in sorted(os.listdir(srcdir)):
        if f.endswith("_table.h"):
            p = os.path.join(srcdir, f)
            s = open(p).read()
            s2, k = re.subn(r"\bstatic\s+std::array<", "static const std::array<", s)
            n += k
            open(p, "w").write(s2)
    if n != 4:
        seam("S6", "fixed_lib/src/*_table.h", f"expected 4 `static std::array<` table definitions, found {n}: "
             "the tables changed shape, re-read DESIGN 2.3 / C19")
        return
    for cxx in compilers:
        r = run([cxx, "-std=c++17", "-fsyntax-only", "-w", "-I" + os.path.join(REPO, "fixed_lib/include"),
                 os.path.join(srcdir, "fixed_math.cc")])
        if r.returncode != 0:
            first = next((l for l in r.stderr.split("\n") if "error" in l), r.stderr[:200])
            seam("S6", "fixed_lib/src/fixed_math.cc", f"{cxx}: does not compile with the lookup tables "
                 f"const-qualified ({first.strip()[:160]}): something writes, or takes a mutable "
                 "reference to, a table (DESIGN 2.3: never written)")
    for rel in library_sources():
        src = strip_comments(open(os.path.join(REPO, rel), errors="replace").read())
        for ln, line in enumerate(src.split("\n"), 1):
            if re.search(r"_table__", line) and re.search(r"const_cast|reinterpret_cast|\(\s*\w+\s*\*\s*\)|memcpy|memset|std::fill|std::copy", line):
                seam("S6", f"{rel}:{ln}", f"cast/bulk write naming a table: `{line.strip()[:90]}`")


def main():
    ap = argparse.ArgumentParser()
    ap.add_argument("--json", help="also write a machine-readable report here (not an evidence file)")
    ap.add_argument("--quick", action="store_true", help="one configuration per compiler instead of the 2x2x2 matrix")
    a = ap.parse_args()
    t0 = time.time()
    compilers = [c for c in ("g++", "clang++") if shutil.which(c)]
    if not compilers:
        print("seam_audit: no compiler found", file=sys.stderr)
        return 2
    files = library_sources()
    if not files:
        print(f"seam_audit: no library sources under {REPO}/fixed_lib", file=sys.stderr)
        return 2
    source_scan(files)
    tmp = tempfile.mkdtemp(prefix="fixedmath_seam_audit_")
    try:
        cells = [(c, s, o) for c in compilers for s in (("17",) if a.quick else ("17", "20")) for o in (("2",) if a.quick else ("0", "2"))]
        jobs = []
        for cxx, std, opt in cells:
            for kind, src in (("lib", os.path.join(REPO, "fixed_lib/src/fixed_math.cc")),
                              ("ep", os.path.join(HERE, "entrypoints.cc"))):
                obj = os.path.join(tmp, f"{kind}_{cxx}_{std}_O{opt}.o")
                jobs.append((kind, f"{kind}:{cxx} -std=c++{std} -O{opt}", obj,
                             [cxx, f"-std=c++{std}", f"-O{opt}", "-w", "-I" + os.path.join(REPO, "fixed_lib/include"),
                              "-c", src, "-o", obj]))
        # abacus configuration of the header TU (the other sqrt back-end)
        for cxx in compilers:
            obj = os.path.join(tmp, f"ep_{cxx}_17_O2_abacus.o")
            jobs.append(("ep", f"ep:{cxx} -std=c++17 -O2 -DFIXEDMATH_ENABLE_SQRT_ABACUS_ALGO", obj,
                         [cxx, "-std=c++17", "-O2", "-w", "-DFIXEDMATH_ENABLE_SQRT_ABACUS_ALGO",
                          "-I" + os.path.join(REPO, "fixed_lib/include"), "-c",
                          os.path.join(HERE, "entrypoints.cc"), "-o", obj]))
        with ThreadPoolExecutor(max_workers=min(16, len(jobs))) as ex:
            results = list(ex.map(lambda j: run(j[3]), jobs))
        for (kind, label, obj, cmd), r in zip(jobs, results):
            if r.returncode != 0:
                first = next((l for l in r.stderr.split("\n") if "error" in l), r.stderr[:300])
                print(f"seam_audit: cannot compile [{label}]: {first.strip()}", file=sys.stderr)
                print("seam_audit: the audit could not run; if the public API changed, update "
                      "audit/entrypoints.cc", file=sys.stderr)
                return 2
            object_audit(obj, kind, label)
        const_table_proof(tmp, compilers)
    finally:
        shutil.rmtree(tmp, ignore_errors=True)
    uniq = sorted(set(seams))
    report = dict(repo=REPO, files_scanned=len(files), objects_audited=len(jobs), compilers=compilers,
                  seams=[dict(rule=r, where=w, why=y) for r, w, y in uniq], notes=notes,
                  wall_s=round(time.time() - t0, 2))
    if a.json:
        with open(a.json, "w") as f:
            json.dump(report, f, indent=1)
    for n in notes:
        print("note:", n)
    if uniq:
        print(f"seam_audit: {len(uniq)} item(s) the not-applicable verdict did not anticipate "
              f"({len(files)} sources, {len(jobs)} objects):")
        for r, w, y in uniq:
            print(f"  SEAM [{r}] {w}: {y}")
        print("seam_audit: a seam appeared: revisit DESIGN.md section 3 for every property whose anchored "
              "code reaches it; deterministic simulation may now apply there.")
        return 3
    print(f"seam_audit: no seam: not-applicable verdict still supported "
          f"({len(files)} sources scanned, {len(jobs)} objects from {'+'.join(compilers)} inspected, "
          f"{report['wall_s']} s)")
    return 0


if __name__ == "__main__":
    sys.exit(main())
